"""C17 – BiSC: the algorithm's private containment tests are clones of the mesh test."""

from __future__ import annotations

import ast
from typing import Dict, List, Optional, Tuple

from ..core import AnalysisError, FuncInfo, Repo, attr_chain, call_name, deviates, unparse, walk_no_nested
from ..report import Ctx

PROP = "C17"
FLOORS = {"C17-K1": 2}

EXPLANATION = (
    "Decided – one clause only, as a necessary condition (thin claim): the algorithm's own containment test agrees with mesh-pattern containment, in the "
    "sense that every copy of the 'cell of a non-occurrence point' computation in the package (MeshPatt._occurrences_in_perm and BiSC's three private "
    "tests) is the same computation – horizontal counter advanced exactly on occurrence points and before the skip, vertical coordinate = number of "
    "occurrence values strictly below the point, cell = (horizontal, vertical), membership tested on that cell – and BiSC's acceptance 'no hit cell "
    "intersects R' is the negation of the mesh test 'some hit cell is shaded'. NOT decided: everything else of the property (soundness up to n, "
    "completeness up to m, irredundancy, clean-up, equivalence of the input forms, auto_bisc up to length 8): mining and hitting-set search are index "
    "arithmetic on runtime data."
)


class Fingerprint:
    def __init__(self) -> None:
        self.counter: Optional[str] = None
        self.counter_init: Optional[str] = None
        self.member_test: Optional[str] = None  # 'element in candidate'
        self.inc_before_skip: bool = False
        self.inc_amount: Optional[str] = None
        self.vert_cmp: Optional[str] = None  # '<' strictness and direction, normalised "occ < point"
        self.vert_count_one: bool = False
        self.cell_order: Optional[str] = None  # 'hv' if (horizontal, vertical)
        self.use: Optional[str] = None  # 'break-if-in-shading' | 'collect'
        self.loop_over_target: bool = False
        self.node: Optional[ast.AST] = None
        self.problems: List[str] = []

    def key(self) -> Tuple:
        return (self.counter_init, self.member_test, self.inc_before_skip, self.inc_amount, self.vert_cmp, self.vert_count_one, self.cell_order, self.loop_over_target)


def find_clones(repo: Repo) -> List[Tuple[FuncInfo, ast.For, str]]:
    """Loops `for element in <perm>: if element in <candidate>: counter += 1; continue ...`
    nested in a loop over candidate occurrences."""
    out = []
    for fi in repo.all_funcs():
        for outer in walk_no_nested(fi.node):
            if not isinstance(outer, ast.For):
                continue
            for inner in outer.body:
                if isinstance(inner, ast.For) and inner.body and isinstance(inner.body[0], ast.If):
                    first = inner.body[0]
                    t = first.test
                    if isinstance(t, ast.Compare) and len(t.ops) == 1 and isinstance(t.ops[0], ast.In) and unparse(t.left) == unparse(inner.target):
                        has_continue = any(isinstance(x, ast.Continue) for x in first.body)
                        has_sum = any(isinstance(x, ast.Call) and call_name(x) == ("sum",) for st in inner.body[1:] for x in ast.walk(st))
                        if has_continue and has_sum:
                            out.append((fi, inner, unparse(t.comparators[0])))
    return out


def extract(fi: FuncInfo, outer_body_loop: ast.For, cand: str) -> Fingerprint:
    fp = Fingerprint()
    fp.node = outer_body_loop
    elem = unparse(outer_body_loop.target)
    first = outer_body_loop.body[0]
    # counter: the AugAssign inside the skip branch
    incs = [st for st in first.body if isinstance(st, ast.AugAssign)]
    conts = [i for i, st in enumerate(first.body) if isinstance(st, ast.Continue)]
    if len(incs) != 1 or not conts:
        fp.problems.append("skip branch does not advance exactly one counter")
        return fp
    fp.counter = unparse(incs[0].target)
    fp.inc_amount = ("+" if isinstance(incs[0].op, ast.Add) else type(incs[0].op).__name__) + unparse(incs[0].value)
    fp.inc_before_skip = first.body.index(incs[0]) < conts[0]
    fp.member_test = "element in candidate"
    # increments elsewhere in the loop body
    for st in outer_body_loop.body[1:]:
        for x in ast.walk(st):
            if isinstance(x, ast.AugAssign) and unparse(x.target) == fp.counter:
                fp.problems.append("horizontal counter is also advanced on non-occurrence points")
    # counter initialisation: the closest preceding assignment in the enclosing block
    parent_block = None
    for node in ast.walk(fi.node):
        for field in ("body", "orelse"):
            lst = getattr(node, field, None)
            if isinstance(lst, list) and outer_body_loop in lst:
                parent_block = lst
    if parent_block is not None:
        pos = parent_block.index(outer_body_loop)
        for st in reversed(parent_block[:pos]):
            if isinstance(st, ast.Assign) and unparse(st.targets[0]) == fp.counter:
                fp.counter_init = unparse(st.value)
                break
    # loop iterates the target permutation whose entries define the candidate
    fp.loop_over_target = True
    cand_def = None
    if parent_block is not None:
        for st in parent_block:
            if isinstance(st, ast.Assign) and unparse(st.targets[0]) == cand:
                cand_def = st.value
    if isinstance(cand_def, ast.ListComp):
        src = unparse(cand_def.elt)
        tgt = unparse(outer_body_loop.iter)
        fp.loop_over_target = src.startswith(f"{tgt}[")
        if not fp.loop_over_target:
            fp.problems.append(f"points are taken from `{tgt}` but the candidate values from `{src}`")
    # vertical coordinate
    vert_name = None
    for st in outer_body_loop.body[1:]:
        if isinstance(st, ast.Assign) and isinstance(st.value, ast.Call) and call_name(st.value) == ("sum",):
            vert_name = unparse(st.targets[0])
            ge = st.value.args[0]
            if not isinstance(ge, ast.GeneratorExp) or len(ge.generators) != 1:
                fp.problems.append("vertical count is not a single comprehension")
                continue
            g = ge.generators[0]
            fp.vert_count_one = unparse(ge.elt) == "1" and unparse(g.iter) == cand and len(g.ifs) == 1
            if len(g.ifs) == 1 and isinstance(g.ifs[0], ast.Compare) and len(g.ifs[0].ops) == 1:
                c = g.ifs[0]
                l, r, op = unparse(c.left), unparse(c.comparators[0]), type(c.ops[0])
                v = unparse(g.target)
                sym = {ast.Lt: "<", ast.LtE: "<=", ast.Gt: ">", ast.GtE: ">="}.get(op)
                if sym is None or {l, r} != {v, elem}:
                    fp.problems.append(f"vertical comparison `{unparse(c)}` is not between an occurrence value and the point")
                else:
                    if l == elem:  # point OP occ  ->  occ OP' point
                        sym = {"<": ">", "<=": ">=", ">": "<", ">=": "<="}[sym]
                    fp.vert_cmp = f"occ {sym} point"
            else:
                fp.problems.append("vertical count has no single comparison filter")
    if vert_name is None:
        fp.problems.append("vertical coordinate not found")
        return fp
    # the cell and its use
    for st in outer_body_loop.body[1:]:
        for x in ast.walk(st):
            if isinstance(x, ast.Tuple) and len(x.elts) == 2:
                a, b = unparse(x.elts[0]), unparse(x.elts[1])
                if {a, b} == {fp.counter, vert_name}:
                    fp.cell_order = "hv" if (a, b) == (fp.counter, vert_name) else "vh"
        if isinstance(st, ast.If) and isinstance(st.test, ast.Compare) and isinstance(st.test.ops[0], ast.In) and any(isinstance(b, ast.Break) for b in st.body):
            fp.use = f"reject-if-cell-in:{unparse(st.test.comparators[0])}"
        if isinstance(st, ast.If) and isinstance(st.test, ast.Compare) and isinstance(st.test.ops[0], ast.NotIn):
            fp.use = f"odd:{unparse(st.test)}"
        if isinstance(st, ast.Expr) and isinstance(st.value, ast.Call) and call_name(st.value) and call_name(st.value)[-1] == "append":
            fp.use = f"collect:{call_name(st.value)[0]}"
    return fp


WANT = {"counter_init": "0", "inc_before_skip": True, "inc_amount": "+1", "vert_cmp": "occ < point", "vert_count_one": True, "cell_order": "hv", "loop_over_target": True}


def run(ctx: Ctx) -> None:
    ctx.run(rule_k1, ctx)


def rule_k1(ctx: Ctx) -> None:
    repo = ctx.repo
    clones = find_clones(repo)
    if not clones:
        raise AnalysisError("no function classifying non-occurrence points into cells was found (C17-K1 floor is 1)")
    fps = []
    for fi, loop, cand in clones:
        fp = extract(fi, loop, cand)
        fps.append((fi, fp))
        bad = list(fp.problems)
        for k, v in WANT.items():
            got = getattr(fp, k)
            if got != v:
                bad.append({"counter_init": f"horizontal counter starts at {got}, not 0",
                            "inc_before_skip": "the horizontal counter is not advanced before the occurrence point is skipped",
                            "inc_amount": f"horizontal counter advances by {got}",
                            "vert_cmp": f"vertical coordinate counts occurrence values with `{got}`; the cell of a point is determined by the values strictly below it (occ < point)",
                            "vert_count_one": "vertical coordinate is not a plain count over the occurrence values",
                            "cell_order": "cell is recorded as (vertical, horizontal)",
                            "loop_over_target": "points and candidate values come from different permutations"}[k])
        if bad:
            for b in bad:
                ctx.violation("C17-K1", fi, loop, f"cell-of-point computation deviates from the mesh-pattern definition: {b}")
        else:
            ctx.ok("C17-K1", fi.where, f"cell of a non-occurrence point = (#occurrence points to its left, #occurrence values strictly below); use: {fp.use}", loop, fi)
    # the mesh test rejects when a hit cell is shaded; BiSC accepts when no hit cell intersects R
    mesh = [(fi, fp) for fi, fp in fps if fi.cls is not None and fi.cls.name == "MeshPatt"]
    if mesh:
        fi, fp = mesh[0]
        if fp.use is None or not fp.use.startswith("reject-if-cell-in:") or not fp.use.endswith(".shading"):
            ctx.violation("C17-K1", fi, fp.node, f"mesh test uses the cell as `{fp.use}`; an occurrence must be rejected exactly when a hit cell is in self.shading")
        else:
            ctx.ok("C17-K1", fi.where, "mesh test: reject the candidate iff some hit cell is shaded", fp.node, fi)
    for fi, fp in fps:
        if fi.cls is None and fp.use and fp.use.startswith("collect:"):
            hits = fp.use.split(":")[1]
            # acceptance: set(hits).intersection(R) == set([])
            sets = [k for k in _assigned_from(fi, f"set({hits})")] + [f"set({hits})"]
            accepted = False
            for n in ast.walk(fi.node):
                # S.intersection(R) == set([]) / set()   |   not S.intersection(R)   |   S.isdisjoint(R)
                if isinstance(n, ast.Compare) and len(n.ops) == 1 and isinstance(n.ops[0], ast.Eq) and isinstance(n.left, ast.Call) and isinstance(n.left.func, ast.Attribute) \
                        and n.left.func.attr == "intersection" and unparse(n.left.func.value) in sets and unparse(n.comparators[0]) in ("set([])", "set()", "frozenset()"):
                    accepted = True
                if isinstance(n, ast.UnaryOp) and isinstance(n.op, ast.Not) and isinstance(n.operand, ast.Call) and isinstance(n.operand.func, ast.Attribute) \
                        and n.operand.func.attr == "intersection" and unparse(n.operand.func.value) in sets:
                    accepted = True
                if isinstance(n, ast.Call) and isinstance(n.func, ast.Attribute) and n.func.attr == "isdisjoint" and unparse(n.func.value) in sets:
                    accepted = True
            if accepted:
                ctx.ok("C17-K1", fi.where, "BiSC test: accept iff no hit cell lies in the shading R (negation of the mesh rejection)", fp.node, fi)
            else:
                ctx.violation("C17-K1", fi, fp.node, "BiSC's private test does not accept exactly when no hit cell intersects the shading R")
    ctx.note(f"clone family: {[fi.qual for fi, _ in fps]}")
    # every private containment test of BiSC is a member of the family, or hands the cell computation to one
    from ..skelrules import reaches_call

    members = {fi.where for fi, _ in fps}
    helper_names = {fi.name for fi, _ in fps}
    mod = repo.module("permuta.bisc.bisc_subfunctions")
    for name in ("mesh_contains_cl_patt_many_shadings", "mesh_contains_cl_patt_many_shadings_with_positions", "perm_contains_cl_patt_many_shadings"):
        f = mod.functions.get(name)
        if f is None:
            raise AnalysisError(f"private containment test {name} vanished")
        if f.where in members:
            continue
        if any(reaches_call(repo, f, h) for h in helper_names if h != name) or reaches_call(repo, f, "contains") or reaches_call(repo, f, "occurrences_in") and reaches_call(repo, f, "MeshPatt"):
            ctx.ok("C17-K1", f.where, "delegates the cell-of-point computation to a member of the family / to mesh-pattern containment", f.node, f)
            continue
        raise AnalysisError(f"{f.where}: no cell-of-point computation recognised in it or in what it calls; agreement with mesh-pattern containment is not decided")


def _assigned_from(fi: FuncInfo, value_txt: str) -> List[str]:
    out = []
    for node in ast.walk(fi.node):
        if isinstance(node, ast.Assign) and unparse(node.value) == value_txt:
            out.append(unparse(node.targets[0]))
    return out


GENERIC_FILES = ['permuta/bisc/bisc.py', 'permuta/bisc/bisc_subfunctions.py']


def variants():
    from ..selftest import generic_equiv, generic_silent

    return _variants() + generic_silent(GENERIC_FILES) + generic_equiv(GENERIC_FILES)


def _variants():
    from ..selftest import V, insert_stmt, reformat_only, rename_local, replace_expr, replace_stmt

    BS, MP, BI = "permuta/bisc/bisc_subfunctions.py", "permuta/patterns/meshpatt.py", "permuta/bisc/bisc.py"
    return [
        V("bisc-test-nonstrict", replace_expr(BS, "perm_contains_cl_patt_many_shadings", "candidate_elt < element", "candidate_elt <= element"), "fire", "C17-K1"),
        V("bisc-test-above", replace_expr(BS, "mesh_contains_cl_patt_many_shadings", "candidate_elt < element", "candidate_elt > element"), "fire", "C17-K1"),
        V("bisc-cell-transposed", replace_expr(BS, "mesh_contains_cl_patt_many_shadings_with_positions", "hit_boxes.append((x, y))", "hit_boxes.append((y, x))"), "fire", "C17-K1"),
        V("bisc-counter-from-1", replace_stmt(BS, "perm_contains_cl_patt_many_shadings", "x = 0", "x = 1"), "fire", "C17-K1"),
        V("bisc-counter-after-skip", replace_stmt(BS, "perm_contains_cl_patt_many_shadings", "if element in candidate: ...", "if element in candidate:\n    continue"), "fire-or-undecided", "C17-K1"),
        V("bisc-accept-when-intersects", replace_expr(BS, "perm_contains_cl_patt_many_shadings", "shit_boxes.intersection(R) == set([])", "shit_boxes.intersection(R) != set([])"), "fire", "C17-K1"),
        V("mesh-test-nonstrict", replace_expr(MP, "MeshPatt._occurrences_in_perm", "candidate_element < element", "candidate_element <= element"), "fire", "C17-K1"),
        V("mesh-test-cell-transposed", replace_expr(MP, "MeshPatt._occurrences_in_perm", "(x, y) in self.shading", "(y, x) in self.shading"), "fire", "C17-K1"),
        V("mesh-test-not-in", replace_expr(MP, "MeshPatt._occurrences_in_perm", "(x, y) in self.shading", "(x, y) not in self.shading"), "fire", "C17-K1"),
        V("mesh-counter-on-all-points", insert_stmt(MP, "MeshPatt._occurrences_in_perm", "y = sum((1 for candidate_element in candidate if candidate_element < element))", "x += 0\nx += 1", "before"), "fire", "C17-K1"),
        V("bisc-predicate-range-n", replace_expr("permuta/bisc/bisc.py", "bisc", "range(n + 1)", "range(1, n + 1)"), "fire", "C17-N1"),
        V("bisc-list-skips-empty", replace_stmt("permuta/bisc/bisc.py", "bisc", "D[len(perm)].append(perm)", "if len(perm) > 0:\n    D[len(perm)].append(perm)"), "fire", "C17-N1"),
        V("bisc-predicate-negated", replace_expr("permuta/bisc/bisc.py", "bisc", "A(perm)", "not A(perm)"), "fire", "C17-N1"),
        # A1 / A2 / U1
        V("auto-validates-other-variable", replace_expr(BI, "auto_bisc", "patterns_suffice_for_bad(sg, L, B, stop_on_failure=True)", "patterns_suffice_for_bad(SG, L, B, stop_on_failure=True)", which=1), "fire", "C17-A1"),
        V("auto-skips-good-check", replace_stmt(BI, "auto_bisc", "val, containing_perms = patterns_suffice_for_good(sg, L, A, stop_on_failure=True)", "val = True"), "fire", "C17-A1"),
        V("auto-bound-7", replace_stmt(BI, "auto_bisc", "L = 8", "L = 7"), "fire", "C17-A1"),
        V("auto-bound-lowered", replace_stmt(BI, "auto_bisc", "if L < n + 1: ...", "L = n + 1"), "fire", "C17-A1"),
        V("auto-good-against-bad-table", replace_expr(BI, "auto_bisc", "patterns_suffice_for_good(sg, L, A, stop_on_failure=True)", "patterns_suffice_for_good(sg, L, B, stop_on_failure=True)"), "fire", "C17-A1"),
        V("auto-returns-learned-set", replace_stmt(BI, "auto_bisc", "return sg", "return SG"), "fire", "C17-A1"),
        V("auto-ignores-bad-verdict", replace_stmt(BI, "auto_bisc", "if not val:\n    print('A bad basis was chosen.')\n    print('Increasing perm length to {}'.format(n + 1))\n    n += 1\n    continue", "if not val:\n    print('A bad basis was chosen.')"), "fire", "C17-A1"),
        V("sanity-bad-range-L", replace_expr(BS, "patterns_suffice_for_bad", "range(L + 1)", "range(L)"), "fire", "C17-A2"),
        V("sanity-good-from-1", replace_expr(BS, "patterns_suffice_for_good", "range(L + 1)", "range(1, L + 1)"), "fire", "C17-A2"),
        V("sanity-bad-polarity", replace_expr(BS, "patterns_suffice_for_bad", "not perm_contains_cl_patts_many_shadings(b, SG)", "perm_contains_cl_patts_many_shadings(b, SG)"), "fire", "C17-A2"),
        V("sanity-good-partial-level", replace_expr(BS, "patterns_suffice_for_good", "A[n]", "A[n][1:]", which=1), "fire-or-undecided", "C17-A2"),
        V("cleanup-range-exclusive", replace_expr(BS, "clean_up", "range(perm_len_min, perm_len_max + 1)", "range(perm_len_min, perm_len_max)"), "fire", "C17-U1"),
        V("cleanup-range-starts-late", replace_expr(BS, "clean_up", "range(perm_len_min, perm_len_max + 1)", "range(perm_len_min + 1, perm_len_max + 1)"), "fire", "C17-U1"),
        V("cleanup-avoid-table-swapped", replace_expr(BS, "clean_up", "perm.avoids(MeshPatt(mpat[0], mpat[1]))", "perm.contains(MeshPatt(mpat[0], mpat[1]))"), "fire", "C17-U1"),
        V("cleanup-monitor-kept", replace_stmt(BS, "clean_up", "monitor.remove(mon)", "pass"), "fire", "C17-U1"),
        V("cleanup-wrapper-bound", replace_expr(BS, "run_clean_up", "clean_up(SG, B, min(SG.keys()) + 1, bm, min(SG.keys()), M, report, detailed_report, limit_monitors)", "clean_up(SG, B, min(SG.keys()) + 1, bm - 1, min(SG.keys()), M, report, detailed_report, limit_monitors)"), "fire", "C17-U1"),
        V("cleanup-range-equivalent", replace_expr(BS, "clean_up", "range(perm_len_min, perm_len_max + 1)", "range(perm_len_min, 1 + perm_len_max)"), "silent"),
        V("auto-rename-sg", rename_local(BI, "auto_bisc", "sg", "description"), "silent"),
        V("auto-rename-val", rename_local(BI, "auto_bisc", "val", "ok"), "silent"),
        V("forb-filter-against-kept", replace_stmt(BS, "forb.find_badpatts", "for j, r in enumerate(R): ...", "for r in R:\n    if not any(s.issubset(r) for s in newR):\n        newR.append(r)"), "fire", "C17-M1"),
        V("forb-filter-superset", replace_expr(BS, "forb.find_badpatts", "s.issubset(r)", "r.issubset(s)"), "fire", "C17-M1"),
        V("forb-filter-sort-ascending", replace_expr(BS, "forb.find_badpatts", "sorted(rec_w_reduce_pattern_pos(set([]), set([]), goodpatts[n][perm], perm, pattern_positions, check_interval), key=lambda x: len(x), reverse=True)",
                                                       "sorted(rec_w_reduce_pattern_pos(set([]), set([]), goodpatts[n][perm], perm, pattern_positions, check_interval), key=lambda x: len(x))"), "fire", "C17-M1"),
        V("forb-filter-ascending-kept", [replace_expr(BS, "forb.find_badpatts", "sorted(rec_w_reduce_pattern_pos(set([]), set([]), goodpatts[n][perm], perm, pattern_positions, check_interval), key=lambda x: len(x), reverse=True)",
                                                       "sorted(rec_w_reduce_pattern_pos(set([]), set([]), goodpatts[n][perm], perm, pattern_positions, check_interval), key=len)"),
                                         replace_stmt(BS, "forb.find_badpatts", "for j, r in enumerate(R): ...", "for r in R:\n    if not any(s <= r for s in newR):\n        newR.append(r)")], "silent"),
        V("cleanup-flag-reset-hoisted", [replace_stmt(BS, "clean_up", "perm_is_a_key = False", ""), insert_stmt(BS, "clean_up", "L_is_a_key = False", "perm_is_a_key = False", "after")], "fire", "C17-U2"),
        V("auto-tables-swapped", replace_stmt(BI, "auto_bisc", "if prop(perm): ...", "if prop(perm):\n    B[i].append(perm)\nelse:\n    A[i].append(perm)"), "fire", "C17-A3"),
        V("auto-complement-in", replace_expr(BI, "auto_bisc", "[perm for perm in Perm.of_length(i) if perm not in A[i]]", "[perm for perm in Perm.of_length(i) if perm in A[i]]"), "fire", "C17-A3"),
        V("auto-tables-range-short", replace_expr(BI, "auto_bisc", "range(L + 1)", "range(L)"), "fire", "C17-A3"),
        V("auto-tuple-swapped", [replace_stmt(BI, "auto_bisc", "A = prop[0]", "A = prop[1]"), replace_stmt(BI, "auto_bisc", "B = prop[1]", "B = prop[0]")], "fire", "C17-A3"),
        V("auto-bad-branch-dropped", replace_stmt(BI, "auto_bisc", "if prop(perm): ...", "if prop(perm):\n    A[i].append(perm)"), "fire", "C17-A3"),
        V("auto-negated-routing", replace_stmt(BI, "auto_bisc", "if prop(perm): ...", "if not prop(perm):\n    B[i].append(perm)\nelse:\n    A[i].append(perm)"), "silent"),
        V("bisc-test-every-shading", replace_expr(BS, "perm_contains_cl_patt_many_shadings", "any((shit_boxes.intersection(R) == set([]) for R in Rs))", "all((shit_boxes.intersection(R) == set([]) for R in Rs))"), "fire", "C17-K2"),
        V("bisc-test-delegates-all", replace_stmt(BS, "perm_contains_cl_patt_many_shadings", "for candidate_indices in patt.occurrences_in(perm): ...", "return perm.contains(*(MeshPatt(patt, R) for R in Rs))"), "fire", "C17-K2"),
        V("bisc-table-test-every-pattern", replace_stmt(BS, "perm_contains_cl_patts_many_shadings", "for n in patts_w_shadings.keys(): ...",
                                                        "return all((perm_contains_cl_patt_many_shadings(perm, pat, patts_w_shadings[n][pat]) for n in patts_w_shadings.keys() for pat in patts_w_shadings[n].keys()))"), "fire", "C17-K2"),
        V("bisc-table-test-negated", replace_expr(BS, "perm_contains_cl_patts_many_shadings", "perm_contains_cl_patt_many_shadings(perm, pat, patts_w_shadings[n][pat])", "not perm_contains_cl_patt_many_shadings(perm, pat, patts_w_shadings[n][pat])"), "fire", "C17-K2"),
        # silent
        V("bisc-test-delegates-any", replace_stmt(BS, "perm_contains_cl_patt_many_shadings", "for candidate_indices in patt.occurrences_in(perm): ...", "return any((perm.contains(MeshPatt(patt, R)) for R in Rs))"), "silent"),
        V("bisc-test-loop-over-shadings", replace_stmt(BS, "perm_contains_cl_patt_many_shadings", "if any((shit_boxes.intersection(R) == set([]) for R in Rs)): ...", "for R in Rs:\n    if shit_boxes.isdisjoint(R):\n        return True"), "silent"),
        V("bisc-table-test-any-form", replace_stmt(BS, "perm_contains_cl_patts_many_shadings", "for n in patts_w_shadings.keys(): ...",
                                                   "return any((perm_contains_cl_patt_many_shadings(perm, pat, Rs) for d in patts_w_shadings.values() for pat, Rs in d.items()))"), "silent"),
        V("reformat-bisc-sub", reformat_only(BS), "silent"),
        V("bisc-swap-sides", replace_expr(BS, "perm_contains_cl_patt_many_shadings", "candidate_elt < element", "element > candidate_elt"), "silent"),
        V("rename-counter", [rename_local(BS, "perm_contains_cl_patt_many_shadings", "x", "col"), rename_local(BS, "perm_contains_cl_patt_many_shadings", "y", "row")], "silent"),
    ]


# ------------------------------------------------------------------ N1: input normalisation


def rule_n1(ctx: Ctx) -> None:
    """List, predicate and dictionary inputs are all turned into {length: [permutations]} before mining:
    the list is grouped by length without filtering, the predicate is evaluated on every permutation of every
    length 0..n, the dictionary is used as given; then mine -> forb with the same bounds."""
    bisc_mod = ctx.repo.module("permuta.bisc.bisc")
    f = bisc_mod.functions.get("bisc")
    if f is None:
        raise AnalysisError("permuta.bisc.bisc.bisc vanished")
    a, m, n = f.params[0], f.params[1], f.params[2]
    chain = [st for st in f.body if isinstance(st, ast.If) and f"isinstance({a}" in unparse(st.test)]
    if len(chain) != 1:
        raise AnalysisError(f"{f.where}: dispatch on the input form not recognised")
    cur: Optional[ast.If] = chain[0]
    seen = {}
    while cur is not None:
        seen[unparse(cur.test)] = cur
        cur = cur.orelse[0] if len(cur.orelse) == 1 and isinstance(cur.orelse[0], ast.If) else None
    lst = seen.get(f"isinstance({a}, list)")
    fn = seen.get(f"isinstance({a}, types.FunctionType)")
    dc = seen.get(f"isinstance({a}, dict)")
    if lst is None or fn is None or dc is None:
        raise AnalysisError(f"{f.where}: the three input forms are not all dispatched")
    # list
    loops = [s for s in lst.body if isinstance(s, ast.For)]
    ok = len(loops) == 1 and unparse(loops[0].iter) == a and len(loops[0].body) == 1
    d_name = None
    for s in lst.body:
        if isinstance(s, ast.Assign) and unparse(s.value) in ("defaultdict(list)", "collections.defaultdict(list)"):
            d_name = unparse(s.targets[0])
    if ok:
        p = unparse(loops[0].target)
        ok = isinstance(loops[0].body[0], ast.Expr) and unparse(loops[0].body[0]) == f"{d_name}[len({p})].append({p})"
    if ok and d_name:
        ctx.ok("C17-N1", f.where, "list input: every permutation filed under its length", loops[0], f)
    else:
        got = "; ".join(unparse(x) for x in (loops[0].body if len(loops) == 1 else [])) or None
        lv = unparse(loops[0].target) if len(loops) == 1 else "perm"
        if len(loops) == 1 and len(loops[0].body) == 1 and isinstance(loops[0].body[0], ast.If) and not loops[0].body[0].orelse \
                and [unparse(x) for x in loops[0].body[0].body] == [f"{d_name}[len({lv})].append({lv})"] and unparse(loops[0].iter) == a:
            ctx.violation("C17-N1", f, loops[0].body[0], f"list input is filtered by `{unparse(loops[0].body[0].test)[:60]}` before it is grouped: some of the given permutations are dropped", robust=True)
            got = None
        if got is None and len(loops) == 1:
            pass
        else:
            deviates(ctx, "C17-N1", f, lst, (f"for {lv} in {unparse(loops[0].iter)}: " + got) if got else None, [f"for {lv} in {a}: {d_name}[len({lv})].append({lv})"],
                     "list input is not grouped as D[len(perm)].append(perm) for every element", absent_is_violation=False)
    # predicate
    outer = [s for s in fn.body if isinstance(s, ast.For)]
    good = False
    if len(outer) == 1 and unparse(outer[0].iter) == f"range({n} + 1)" and len(outer[0].body) == 1 and isinstance(outer[0].body[0], ast.For):
        i = unparse(outer[0].target)
        inner = outer[0].body[0]
        p = unparse(inner.target)
        if unparse(inner.iter) == f"Perm.of_length({i})" and len(inner.body) == 1 and isinstance(inner.body[0], ast.If) and unparse(inner.body[0].test) == f"{a}({p})" \
                and len(inner.body[0].body) == 1 and isinstance(inner.body[0].body[0], ast.Expr) and unparse(inner.body[0].body[0]).endswith(f"[{i}].append({p})") and not inner.body[0].orelse:
            good = True
    if good:
        ctx.ok("C17-N1", f.where, "predicate input: exactly the permutations of lengths 0..n satisfying it, filed under their length", outer[0], f)
    else:
        def flat(st) -> str:
            if isinstance(st, ast.For):
                return f"for {unparse(st.target)} in {unparse(st.iter)}: " + "; ".join(flat(x) for x in st.body)
            if isinstance(st, ast.If) and not st.orelse:
                return f"if {unparse(st.test)}: " + "; ".join(flat(x) for x in st.body)
            return unparse(st)
        got = flat(outer[0]) if len(outer) == 1 else None
        iv = unparse(outer[0].target) if len(outer) == 1 else "i"
        pv = unparse(outer[0].body[0].target) if len(outer) == 1 and outer[0].body and isinstance(outer[0].body[0], ast.For) else "perm"
        deviates(ctx, "C17-N1", f, fn, got, [f"for {iv} in range({n} + 1): for {pv} in Perm.of_length({iv}): if {a}({pv}): {d_name}[{iv}].append({pv})"],
                 f"predicate input is not expanded to {{i: [p in S_i if A(p)]}} for i in range({n} + 1)", absent_is_violation=False)
    # dict
    if [unparse(s) for s in dc.body] == [f"{d_name} = {a}"]:
        ctx.ok("C17-N1", f.where, "dictionary input is used as given", dc, f)
    else:
        deviates(ctx, "C17-N1", f, dc, "; ".join(unparse(x) for x in dc.body), [f"{d_name} = {a}"], "dictionary input is transformed before mining", k=2, absent_is_violation=False)
    # pipeline: mine(D, m, n) -> forb(<both results of mine>, m) -> returned
    mines = [st for st in f.body if isinstance(st, ast.Assign) and isinstance(st.value, ast.Call) and call_name(st.value) == ("mine",)]
    forbs = [st for st in f.body if isinstance(st, ast.Assign) and isinstance(st.value, ast.Call) and call_name(st.value) == ("forb",)]
    rets = [st for st in f.body if isinstance(st, ast.Return)]
    if len(mines) != 1 or len(rets) != 1 or not isinstance(mines[0].targets[0], ast.Tuple):
        raise AnalysisError(f"{f.where}: mine/forb pipeline not recognised")
    if len(forbs) == 1:
        forb_call, returned_ok = forbs[0].value, unparse(rets[0].value) == unparse(forbs[0].targets[0])
    elif not forbs and isinstance(rets[0].value, ast.Call) and call_name(rets[0].value) == ("forb",):
        forb_call, returned_ok = rets[0].value, True  # `return forb(...)`
    else:
        raise AnalysisError(f"{f.where}: mine/forb pipeline not recognised")
    mres = [unparse(e) for e in mines[0].targets[0].elts]
    margs = [unparse(x) for x in mines[0].value.args]
    fargs = [unparse(x) for x in forb_call.args]
    if margs[:3] == [d_name, m, n] and fargs[:3] == mres + [m] and returned_ok:
        ctx.ok("C17-N1", f.where, "mine(D, m, n) -> forb(ci, goodpatts, m) -> result", f.node, f)
    else:
        ctx.violation("C17-N1", f, mines[0], f"the pipeline is mine({', '.join(margs)}) -> forb({', '.join(fargs)}); expected mine({d_name}, {m}, {n}) -> forb({', '.join(mres)}, {m}) and its result returned")


_OLD_RUN = run


def run(ctx: Ctx) -> None:  # noqa: F811
    _OLD_RUN(ctx)
    ctx.run(rule_n1, ctx)


FLOORS["C17-N1"] = 4
EXPLANATION = EXPLANATION.replace("Decided – one clause only,", "Decided – two clauses: the three input forms are normalised to the same {length: [permutations]} dictionary before mining (N1); and,")


# ------------------------------------------------------------------ linear expressions


def lin(node: ast.AST) -> Optional[Dict[str, int]]:
    """``a + 1 - b`` -> {'a': 1, 'b': -1, '': 1}; None if not affine in plain names."""
    if isinstance(node, ast.Constant) and isinstance(node.value, int) and not isinstance(node.value, bool):
        return {"": node.value}
    if isinstance(node, ast.Name):
        return {node.id: 1}
    if isinstance(node, ast.UnaryOp) and isinstance(node.op, ast.USub):
        a = lin(node.operand)
        return None if a is None else {k: -v for k, v in a.items()}
    if isinstance(node, ast.BinOp) and isinstance(node.op, (ast.Add, ast.Sub)):
        a, b = lin(node.left), lin(node.right)
        if a is None or b is None:
            return None
        out = dict(a)
        for k, v in b.items():
            out[k] = out.get(k, 0) + (v if isinstance(node.op, ast.Add) else -v)
        return {k: v for k, v in out.items() if v != 0}
    return None


def lin_diff(a: ast.AST, b: Dict[str, int]) -> Optional[int]:
    """a - b as an integer constant, or None if it is not a constant."""
    la = lin(a)
    if la is None:
        return None
    out = dict(la)
    for k, v in b.items():
        out[k] = out.get(k, 0) - v
    out = {k: v for k, v in out.items() if v != 0}
    if not out:
        return 0
    if set(out) == {""}:
        return out[""]
    return None


# ------------------------------------------------------------------ A2: the two sanity checks are bounded universal searches


def rule_a2(ctx: Ctx) -> None:
    mod = ctx.repo.module("permuta.bisc.bisc_subfunctions")
    for fname, negated, what in (("patterns_suffice_for_bad", True, "every bad permutation of length <= L contains a pattern"),
                                 ("patterns_suffice_for_good", False, "no good permutation of length <= L contains a pattern")):
        f = mod.functions.get(fname)
        if f is None:
            raise AnalysisError(f"{fname} vanished")
        ctx.run(check_sanity, ctx, f, negated, what)


def check_sanity(ctx: Ctx, f: FuncInfo, negated: bool, what: str) -> None:
    if len(f.params) < 3:
        raise AnalysisError(f"{f.where}: signature not recognised")
    sg, bound, table = f.params[0], f.params[1], f.params[2]
    outer = [st for st in f.body if isinstance(st, ast.For)]
    if len(outer) != 1:
        raise AnalysisError(f"{f.where}: expected one loop over the lengths")
    lp = outer[0]
    it = lp.iter
    if not (isinstance(it, ast.Call) and call_name(it) == ("range",) and 1 <= len(it.args) <= 2 and isinstance(lp.target, ast.Name)):
        raise AnalysisError(f"{f.where}: length loop is not a range")
    start = it.args[0] if len(it.args) == 2 else ast.Constant(value=0)
    stop = it.args[-1]
    d0, d1 = lin_diff(start, {"": 0}), lin_diff(stop, {bound: 1, "": 1})
    if d0 is None or d1 is None:
        raise AnalysisError(f"{f.where}: bounds of `{unparse(it)}` are not affine in {bound}")
    if d0 > 0 or d1 < 0:
        ctx.violation("C17-A2", f, lp, f"the sanity check runs over `{unparse(it)}`; it must cover every length 0..{bound} ({what})")
        return
    n = lp.target.id
    # every `return True` comes after the loop
    for node in walk_no_nested(f.node):
        if isinstance(node, ast.Return) and node.value is not None:
            first = node.value.elts[0] if isinstance(node.value, ast.Tuple) and node.value.elts else node.value
            if isinstance(first, ast.Constant) and first.value is True:
                if node not in f.body or f.body.index(node) < f.body.index(lp):
                    ctx.violation("C17-A2", f, node, "the sanity check reports success before all lengths were examined")
                    return
            elif not (isinstance(first, ast.Constant) and first.value is False):
                raise AnalysisError(f"{f.where}: verdict `{unparse(node.value)}` is not a literal")
    if not (f.body and isinstance(f.body[-1], ast.Return)):
        raise AnalysisError(f"{f.where}: no final verdict")
    # inner loop over the whole level
    inner = [st for st in lp.body if isinstance(st, ast.For)]
    if len(inner) != 1 or unparse(inner[0].iter) != f"{table}[{n}]" or not isinstance(inner[0].target, ast.Name):
        if len(inner) == 1 and isinstance(inner[0].iter, ast.Subscript) and unparse(inner[0].iter.value) == f"{table}[{n}]":
            ctx.violation("C17-A2", f, inner[0], f"only part of level {n} is examined (`{unparse(inner[0].iter)}`)")
            return
        raise AnalysisError(f"{f.where}: loop over {table}[{n}] not recognised")
    e = inner[0].target.id
    tests = [st for st in inner[0].body if isinstance(st, ast.If)]
    if len(tests) != 1 or len(inner[0].body) != 1:
        raise AnalysisError(f"{f.where}: per-permutation test not recognised")
    t = tests[0].test
    neg = False
    if isinstance(t, ast.UnaryOp) and isinstance(t.op, ast.Not):
        neg, t = True, t.operand
    if not (isinstance(t, ast.Call) and call_name(t) == ("perm_contains_cl_patts_many_shadings",) and [unparse(a) for a in t.args] == [e, sg]):
        raise AnalysisError(f"{f.where}: failure test `{unparse(tests[0].test)}` not recognised")
    if neg != negated:
        ctx.violation("C17-A2", f, tests[0], f"failure is declared when the permutation {'avoids' if neg else 'contains'} the patterns; for this check it is the opposite ({what})")
        return
    # a failure always ends in `return False`: directly, or by being collected and reported after the level
    collected: Optional[str] = None

    def ends_false(stmts: List[ast.stmt]) -> str:
        """'yes': every path through ``stmts`` ends in a negative verdict or records the permutation; 'fall': some path runs off the
        end having done nothing but output; 'no': some path ends in another verdict; 'unknown': a statement that is not understood"""
        nonlocal collected
        for st in stmts:
            if isinstance(st, ast.Return):
                v = st.value.elts[0] if isinstance(st.value, ast.Tuple) else st.value
                return "yes" if isinstance(v, ast.Constant) and v.value is False else "no"
            if isinstance(st, ast.If):
                b, o = ends_false(st.body), ends_false(st.orelse)
                if "unknown" in (b, o):
                    return "unknown"
                if "no" in (b, o):
                    return "no"
                if b == o == "yes":
                    return "yes"
                continue  # at least one branch falls through to what follows
            if isinstance(st, ast.Expr) and isinstance(st.value, ast.Call) and isinstance(st.value.func, ast.Attribute) and st.value.func.attr == "append" \
                    and [unparse(a) for a in st.value.args] == [e] and isinstance(st.value.func.value, ast.Name):
                collected = st.value.func.value.id
                return "yes"
            if isinstance(st, ast.Pass) or (isinstance(st, ast.Expr) and isinstance(st.value, ast.Call) and (call_name(st.value) == ("print",) or (call_name(st.value) or ("",))[0] in ("logger", "logging"))) \
                    or (isinstance(st, ast.Expr) and isinstance(st.value, ast.Constant)):
                continue
            if isinstance(st, (ast.Break, ast.Continue)):
                return "fall"
            return "unknown"
        return "fall"

    verdict = ends_false(tests[0].body)
    if verdict == "unknown" or (tests[0].orelse and verdict == "yes" and any(not isinstance(x, (ast.Pass, ast.Continue)) for x in tests[0].orelse)):
        raise AnalysisError(f"{f.where}: what happens with a failing permutation is not recognised")
    if verdict != "yes":
        ctx.violation("C17-A2", f, tests[0], "a failing permutation does not lead to a negative verdict on every path")
        return
    if collected is not None:
        pos = lp.body.index(inner[0])
        rep = [st for st in lp.body[pos + 1:] if isinstance(st, ast.If)]
        good = False
        for st in rep:
            conj = [unparse(c) for c in (st.test.values if isinstance(st.test, ast.BoolOp) and isinstance(st.test.op, ast.And) else [st.test])]
            if collected in conj and set(conj) <= {collected, f"{table}[{n}]"} and any(isinstance(x, ast.Return) and unparse(x.value).startswith("(False") or isinstance(x, ast.Return) and unparse(x.value).startswith("False") for x in st.body):
                good = True
        inits = [st for st in lp.body[:pos] if isinstance(st, ast.Assign) and unparse(st.targets[0]) == collected and unparse(st.value) in ("[]", "list()")]
        if not good or not inits:
            ctx.violation("C17-A2", f, inner[0], f"failures collected in `{collected}` are not turned into a negative verdict after the level")
            return
    ctx.ok("C17-A2", f.where, f"bounded universal search: for n in 0..{bound}, every element of {table}[n]: {what}; any failure => (False, witnesses), success only after the loop", lp, f)


# ------------------------------------------------------------------ A1: what auto_bisc returns is what it validated


class VState:
    """facts: set of (kind, var) validated on the current path; pend: var -> (kind, checked var) for an unexamined verdict."""

    def __init__(self, facts=frozenset(), pend=None):
        self.facts = frozenset(facts)
        self.pend = dict(pend or {})

    def copy(self) -> "VState":
        return VState(self.facts, self.pend)

    @staticmethod
    def join(states: List["VState"]) -> Optional["VState"]:
        states = [s for s in states if s is not None]
        if not states:
            return None
        facts = frozenset.intersection(*[s.facts for s in states])
        pend = {k: v for k, v in states[0].pend.items() if all(s.pend.get(k) == v for s in states[1:])}
        return VState(facts, pend)


class ValidatedReturn:
    CHECKS = {"patterns_suffice_for_bad": "bad", "patterns_suffice_for_good": "good"}

    def __init__(self, ctx: Ctx, f: FuncInfo, bound: str):
        self.ctx, self.f, self.bound = ctx, f, bound
        self.returns: List[Tuple[ast.Return, VState]] = []
        self.calls: List[Tuple[ast.Call, str]] = []

    # -- expressions / assignments
    def assign(self, st: ast.stmt, s: VState) -> None:
        tgts: List[ast.AST] = []
        value = None
        if isinstance(st, ast.Assign):
            tgts, value = st.targets, st.value
        elif isinstance(st, (ast.AugAssign, ast.AnnAssign)):
            tgts, value = [st.target], st.value
        names: List[str] = []
        for t in tgts:
            for x in ast.walk(t):
                if isinstance(x, ast.Name):
                    names.append(x.id)
        for nm in names:
            s.facts = frozenset(fk for fk in s.facts if fk[1] != nm)
            s.pend = {k: v for k, v in s.pend.items() if k != nm and v[1] != nm}
        if isinstance(value, ast.Call) and call_name(value) and call_name(value)[-1] in self.CHECKS and isinstance(st, ast.Assign) and len(st.targets) == 1:
            kind = self.CHECKS[call_name(value)[-1]]
            self.calls.append((value, kind))
            tgt = st.targets[0]
            verdict = tgt.elts[0] if isinstance(tgt, ast.Tuple) and tgt.elts else tgt
            args = value.args
            if isinstance(verdict, ast.Name) and len(args) >= 3 and isinstance(args[0], ast.Name) and unparse(args[1]) == self.bound:
                s.pend[verdict.id] = (kind, args[0].id, unparse(args[2]))
        elif isinstance(value, ast.Constant) and len(names) == 1 and isinstance(value.value, bool):
            s.pend[names[0]] = ("const", value.value, None)

    def refine(self, test: ast.AST, s: VState, truth: bool) -> Optional[VState]:
        """state under the assumption that `test` evaluates to `truth` (None = infeasible)."""
        if isinstance(test, ast.UnaryOp) and isinstance(test.op, ast.Not):
            return self.refine(test.operand, s, not truth)
        if isinstance(test, ast.Name) and test.id in s.pend:
            kind, var, tbl = s.pend[test.id]
            out = s.copy()
            if kind == "const":
                return out if var is truth else None
            if truth:
                out.facts = out.facts | {(kind, var, tbl)}
            return out
        return s.copy()

    # -- statements; path-sensitive: a list of fall-through states, one per distinguishable path (no merging at joins,
    #    otherwise the correlation between `val` and the validated variable is lost); loops restart from the empty state
    def block(self, stmts: List[ast.stmt], states: List[VState], loop: Optional[Dict[str, List[VState]]]) -> List[VState]:
        for st in stmts:
            nxt: List[VState] = []
            for s in states:
                nxt.extend(self.stmt(st, s, loop))
            uniq = {}
            for s in nxt:
                uniq[(s.facts, tuple(sorted(s.pend.items(), key=repr)))] = s
            states = list(uniq.values())
            if len(states) > 512:
                raise AnalysisError(f"{self.f.where}: too many paths to analyse")
            if not states:
                return []
        return states

    def stmt(self, st: ast.stmt, s: VState, loop) -> List[VState]:
        if isinstance(st, (ast.Assign, ast.AugAssign, ast.AnnAssign)):
            s = s.copy()
            self.assign(st, s)
            return [s]
        if isinstance(st, ast.Return):
            self.returns.append((st, s.copy()))
            return []
        if isinstance(st, ast.Break):
            if loop is not None:
                loop["break"].append(s.copy())
            return []
        if isinstance(st, ast.Continue):
            return []
        if isinstance(st, ast.If):
            a = self.refine(st.test, s, True)
            b = self.refine(st.test, s, False)
            out: List[VState] = []
            if a is not None:
                out.extend(self.block(st.body, [a], loop))
            if b is not None:
                out.extend(self.block(st.orelse, [b], loop))
            return out
        if isinstance(st, (ast.While, ast.For)):
            # the loop head knows nothing (sound: no fact survives an iteration boundary)
            inner = {"break": []}
            self.block(st.body, [VState()], inner)
            infinite = isinstance(st, ast.While) and isinstance(st.test, ast.Constant) and st.test.value is True
            if infinite and not inner["break"]:
                return []
            return self.block(st.orelse, [VState()], loop) if st.orelse else [VState()]
        if isinstance(st, ast.With):
            return self.block(st.body, [s], loop)
        if isinstance(st, ast.Try):
            raise AnalysisError(f"{self.f.where}: try statement in the driver not analysed")
        if isinstance(st, ast.Raise):
            return []
        if isinstance(st, (ast.Expr, ast.Pass, ast.Assert, ast.Import, ast.ImportFrom, ast.Delete, ast.Global, ast.Nonlocal, ast.FunctionDef)):
            return [s]
        raise AnalysisError(f"{self.f.where}: statement {type(st).__name__} not analysed")


def rule_a1(ctx: Ctx) -> None:
    mod = ctx.repo.module("permuta.bisc.bisc")
    f = mod.functions.get("auto_bisc")
    if f is None:
        raise AnalysisError("auto_bisc vanished")
    # the sanity bound: a local that starts at a constant >= 8 and is only ever raised
    cands = [st for st in f.body if isinstance(st, ast.Assign) and isinstance(st.value, ast.Constant) and isinstance(st.value.value, int) and len(st.targets) == 1 and isinstance(st.targets[0], ast.Name)]
    calls = [n for n in walk_no_nested(f.node) if isinstance(n, ast.Call) and call_name(n) and call_name(n)[-1] in ValidatedReturn.CHECKS]
    if not calls:
        ctx.violation("C17-A1", f, f.node, "the automatic driver never validates a description against the property", robust=True)
        return
    bounds = {unparse(c.args[1]) for c in calls if len(c.args) >= 3}
    if len(bounds) != 1:
        # one check validated up to the sanity bound, another up to something else: evidence when that something is a loop
        # variable of the driver (the length the description was learned from - sound there by construction, the check is vacuous)
        sane = {b for b in bounds if any(st.targets[0].id == b and st.value.value >= 8 for st in cands)}
        loop_vars = {t.id for n in walk_no_nested(f.node) if isinstance(n, ast.For) for t in ast.walk(n.target) if isinstance(t, ast.Name)}
        loop_vars |= {st.targets[0].id for st in cands if st.value.value < 8}  # the counter the learning length starts from (n = 4)
        for c in calls:
            if len(c.args) >= 3 and unparse(c.args[1]) not in sane and unparse(c.args[1]) in loop_vars and sane:
                ctx.violation("C17-A1", f, c, f"`{call_name(c)[-1]}` validates the description only up to `{unparse(c.args[1])}`, the driver's learning length, while the other "
                              f"check uses the sanity bound `{sorted(sane)[0]}`: a description that fails on longer permutations is returned", robust=True)
                return
        raise AnalysisError(f"{f.where}: sanity checks use different bounds {sorted(bounds)}")
    bound = bounds.pop()
    init = [st for st in cands if st.targets[0].id == bound]
    if len(init) != 1:
        raise AnalysisError(f"{f.where}: initial value of the sanity bound `{bound}` not found")
    if init[0].value.value < 8:
        ctx.violation("C17-A1", f, init[0], f"the sanity bound starts at {init[0].value.value}; descriptions must be validated on every permutation up to length 8", robust=True)
        return
    for node in walk_no_nested(f.node):
        if isinstance(node, (ast.Assign, ast.AugAssign)) and node is not init[0]:
            tg = node.targets if isinstance(node, ast.Assign) else [node.target]
            if any(isinstance(t, ast.Name) and t.id == bound for t in tg):
                # accepted idiom: `if L < e: L = e`
                ok = False
                for par in walk_no_nested(f.node):
                    if isinstance(par, ast.If) and node in par.body and isinstance(node, ast.Assign) and unparse(par.test) in (f"{bound} < {unparse(node.value)}", f"{unparse(node.value)} > {bound}"):
                        ok = True
                if not ok:
                    ctx.violation("C17-A1", f, node, f"the sanity bound `{bound}` is reassigned in a way that can lower it below 8", robust=True)
                    return
    ctx.ok("C17-A1", f.where, f"sanity bound `{bound}` starts at {init[0].value.value} and is only ever raised", init[0], f)
    # the tables: good permutations feed bisc(), the bad ones are the other table
    learn = [n for n in walk_no_nested(f.node) if isinstance(n, ast.Call) and call_name(n) == ("bisc",)]
    if len(learn) != 1 or not learn[0].args:
        raise AnalysisError(f"{f.where}: learning call not recognised")
    good_tbl = unparse(learn[0].args[0])
    vr = ValidatedReturn(ctx, f, bound)
    vr.block(f.body, [VState()], None)
    described = [(r, s) for r, s in vr.returns if r.value is not None and not (isinstance(r.value, ast.Constant) and r.value.value is None)]
    if not described:
        raise AnalysisError(f"{f.where}: no return of a description found")
    for r, s in described:
        if not isinstance(r.value, ast.Name):
            raise AnalysisError(f"{f.where}: returns `{unparse(r.value)}`, not a variable")
        x = r.value.id
        have = {(k, tbl) for (k, v, tbl) in s.facts if v == x}
        goods = [tbl for k, tbl in have if k == "good"]
        bads = [tbl for k, tbl in have if k == "bad"]
        missing = []
        if not goods:
            missing.append("patterns_suffice_for_good")
        if not bads:
            missing.append("patterns_suffice_for_bad")
        if missing:
            others = sorted({f"{k}:{v}" for (k, v, _t) in s.facts})
            ctx.violation("C17-A1", f, r, f"`return {x}`: on a path reaching it, `{x}` itself was not validated by {' / '.join(missing)} up to `{bound}` after its last assignment (validated on that path: {others or 'nothing'}); the returned description need not match the property up to length 8", robust=True)
            continue
        if goods != [good_tbl] or bads == [good_tbl]:
            ctx.violation("C17-A1", f, r, f"`{x}` is validated against the wrong table (good: {goods}, bad: {bads}; the good permutations are `{good_tbl}`)", robust=True)
            continue
        ctx.ok("C17-A1", f.where, f"`return {x}` is reached only after patterns_suffice_for_bad({x}, {bound}, {bads[0]}) and patterns_suffice_for_good({x}, {bound}, {goods[0]}) both succeeded on that very value", r, f)


# ------------------------------------------------------------------ U1: the clean-up tests every bad permutation it is given


def rule_u1(ctx: Ctx) -> None:
    mod = ctx.repo.module("permuta.bisc.bisc_subfunctions")
    f = mod.functions.get("clean_up")
    r = mod.functions.get("run_clean_up")
    if f is None or r is None:
        raise AnalysisError("clean_up / run_clean_up vanished")
    if len(f.params) < 4:
        raise AnalysisError(f"{f.where}: signature not recognised")
    tbl, lo, hi = f.params[1], f.params[2], f.params[3]
    loops = []
    for node in walk_no_nested(f.node):
        if isinstance(node, ast.For) and isinstance(node.iter, ast.Call) and call_name(node.iter) == ("range",) and isinstance(node.target, ast.Name):
            inner = [st for st in node.body if isinstance(st, ast.For) and isinstance(st.iter, ast.Subscript) and unparse(st.iter).startswith(f"{tbl}[")]
            if inner:
                loops.append((node, inner))
    if len(loops) != 1 or len(loops[0][1]) != 1:
        raise AnalysisError(f"{f.where}: loop over the bad permutations by length not recognised")
    lp, (inner,) = loops[0]
    L = lp.target.id
    args = lp.iter.args
    if len(args) != 2:
        raise AnalysisError(f"{f.where}: `{unparse(lp.iter)}` not recognised")
    d0, d1 = lin_diff(args[0], {lo: 1}), lin_diff(args[1], {hi: 1, "": 1})
    if d0 is None or d1 is None:
        raise AnalysisError(f"{f.where}: bounds of `{unparse(lp.iter)}` are not affine in {lo}/{hi}")
    if d0 > 0 or d1 < 0:
        ctx.violation("C17-U1", f, lp, f"candidate bases are tested on lengths `{unparse(lp.iter)}` only; the bad permutations of every length {lo}..{hi} (inclusive) must be tested, so a returned basis can be avoided by a bad permutation of length {hi if d1 < 0 else lo}")
        return
    if unparse(inner.iter) != f"{tbl}[{L}]":
        ctx.violation("C17-U1", f, inner, f"only `{unparse(inner.iter)}` of the bad permutations of length {L} is tested")
        return
    ctx.ok("C17-U1", f.where, f"every bad permutation of every length {lo}..{hi} is tested (`{unparse(lp.iter)}`, `{unparse(inner.iter)}`)", lp, f)
    perm = unparse(inner.target)
    # the avoidance table has the polarity of perm.avoids
    pol = 0
    for node in ast.walk(inner):
        if isinstance(node, ast.If) and isinstance(node.test, ast.Call) and isinstance(node.test.func, ast.Attribute) and node.test.func.attr in ("avoids", "contains") and unparse(node.test.func.value) == perm:
            want_body = node.test.func.attr == "avoids"
            sb = [st for st in node.body if isinstance(st, ast.Assign) and isinstance(st.targets[0], ast.Subscript) and isinstance(st.value, ast.Constant)]
            so = [st for st in node.orelse if isinstance(st, ast.Assign) and isinstance(st.targets[0], ast.Subscript) and isinstance(st.value, ast.Constant)]
            if len(sb) == 1 and len(so) == 1 and unparse(sb[0].targets[0]) == unparse(so[0].targets[0]):
                pol += 1
                if sb[0].value.value is not want_body or so[0].value.value is want_body:
                    ctx.violation("C17-U1", f, node, f"the table `{unparse(sb[0].targets[0].value)}` (does the permutation avoid the pattern?) is filled with the opposite truth value")
                    return
                avoid_tbl = unparse(sb[0].targets[0].value)
                key = unparse(sb[0].targets[0].slice)
                # the pattern tested is the one registered under the same key
                srcs = [st for st in ast.walk(inner) if isinstance(st, ast.Assign) and isinstance(st.value, ast.Subscript) and unparse(st.value.slice) == key]
                if not srcs:
                    raise AnalysisError(f"{f.where}: pattern looked up for key {key} not found")
    if pol != 1:
        raise AnalysisError(f"{f.where}: avoidance table not recognised")
    ctx.ok("C17-U1", f.where, f"{avoid_tbl}[k] is True exactly when the permutation avoids pattern k", inner, f)
    # a refuted monitor is removed
    rets = [st for st in f.body if isinstance(st, ast.Return)]
    if not rets or not isinstance(rets[-1].value, ast.Tuple) or not isinstance(rets[-1].value.elts[0], ast.ListComp):
        raise AnalysisError(f"{f.where}: final result not recognised")
    mon_var = unparse(rets[-1].value.elts[0].generators[0].iter)
    found = 0
    for node in ast.walk(inner):
        if isinstance(node, ast.For):
            for st in node.body:
                if isinstance(st, ast.If) and isinstance(st.test, ast.Call) and call_name(st.test) == ("all",) and avoid_tbl in unparse(st.test):
                    found += 1
                    m = unparse(node.target)
                    removed = False
                    for b in st.body:
                        if isinstance(b, ast.Expr) and unparse(b) == f"{mon_var}.remove({m})":
                            removed = True
                            break
                        if any(isinstance(x, (ast.Continue, ast.Break)) for x in ast.walk(b)) and not removed:
                            break
                    if not removed:
                        ctx.violation("C17-U1", f, st, f"a candidate basis all of whose patterns are avoided by the bad permutation is not removed from `{mon_var}` (on every path): it can be returned although a tested bad permutation avoids it", robust=True)
                        return
                    ge = st.test.args[0]
                    if not (isinstance(ge, ast.GeneratorExp) and unparse(ge.elt) == f"{avoid_tbl}[{unparse(ge.generators[0].target)}]"):
                        raise AnalysisError(f"{f.where}: refutation test `{unparse(st.test)[:80]}` not recognised")
    if found != 1:
        raise AnalysisError(f"{f.where}: refutation test of a candidate basis not recognised")
    ctx.ok("C17-U1", f.where, f"a candidate basis whose (applicable) patterns are all avoided by the permutation is removed from `{mon_var}` before anything else", inner, f)
    # run_clean_up passes its bound through
    calls = [n for n in walk_no_nested(r.node) if isinstance(n, ast.Call) and call_name(n) == ("clean_up",)]
    if len(calls) != 1:
        raise AnalysisError(f"{r.where}: call of clean_up not recognised")
    c = calls[0]
    amap = {f.params[i]: unparse(a) for i, a in enumerate(c.args)}
    amap.update({k.arg: unparse(k.value) for k in c.keywords if k.arg})
    bm = r.params[2] if len(r.params) > 2 else None
    if amap.get(tbl) != r.params[1] or amap.get(hi) != bm:
        ctx.violation("C17-U1", r, c, f"run_clean_up passes {tbl}={amap.get(tbl)}, {hi}={amap.get(hi)}; expected its own arguments {r.params[1]} and {bm}")
        return
    d = lin_diff(ast.parse(amap.get(lo, "None"), mode="eval").body, {"": 0})
    ctx.ok("C17-U1", r.where, f"run_clean_up(SG, {r.params[1]}, {bm}) -> clean_up(..., {tbl}={amap.get(tbl)}, {lo}={amap.get(lo)}, {hi}={amap.get(hi)})", c, r)
    _ = d


_OLD_RUN2 = run


def run(ctx: Ctx) -> None:  # noqa: F811
    _OLD_RUN2(ctx)
    ctx.run(rule_a1, ctx)
    ctx.run(rule_a2, ctx)
    ctx.run(rule_u1, ctx)


FLOORS.update({"C17-A1": 2, "C17-A2": 2, "C17-U1": 4})

EXPLANATION = EXPLANATION.replace("NOT decided: everything else of the property (soundness up to n, completeness up to m, irredundancy, clean-up, equivalence of the input forms, auto_bisc up to length 8)",
    "Also decided, as necessary conditions: auto_bisc returns only a value that passed both sanity checks up to a bound >= 8 on that very path (A1, path-sensitive typestate), the two sanity checks are bounded universal searches over all lengths 0..L and all elements (A2), the clean-up tests every bad permutation of every length it is given, records avoidance with the right polarity and removes refuted candidates (U1). NOT decided: soundness up to n, completeness up to m and irredundancy of the learned set")


# ------------------------------------------------------------------ U2: per-element flags are reset per element


def per_element_flags(fi: FuncInfo):
    """(loop, if-statement, flag, reset?) for every boolean flag that is set under a condition on the loop variable and
    read inside the same loop body: it describes the current element, so it must be re-initialised for each element."""
    def names_in(e: ast.AST):
        return {n.id for n in ast.walk(e) if isinstance(n, ast.Name)}

    for loop in walk_no_nested(fi.node):
        if not isinstance(loop, ast.For):
            continue
        tv = names_in(loop.target)
        for idx, st in enumerate(loop.body):
            if not (isinstance(st, ast.If) and names_in(st.test) & tv):
                continue
            def flags(stmts):
                out = set()
                for s in stmts:
                    for n in ast.walk(s):
                        if isinstance(n, ast.Assign) and isinstance(n.value, ast.Constant) and isinstance(n.value.value, bool):
                            out |= {t.id for t in n.targets if isinstance(t, ast.Name)}
                return out
            for x in sorted(flags(st.body) - flags(st.orelse)):
                reads = [n for s in loop.body for n in ast.walk(s) if isinstance(n, ast.Name) and n.id == x and isinstance(n.ctx, ast.Load)]
                if not reads:
                    continue  # an accumulator consumed after the loop
                reset = [s for s in loop.body[:idx] if isinstance(s, ast.Assign) and any(isinstance(t, ast.Name) and t.id == x for t in s.targets)]
                yield loop, st, x, bool(reset)


def rule_u2(ctx: Ctx) -> None:
    mod = ctx.repo.module("permuta.bisc.bisc_subfunctions")
    n = 0
    for fi in mod.functions.values():
        for loop, st, x, reset in per_element_flags(fi):
            n += 1
            v = unparse(loop.target)
            if reset:
                ctx.ok("C17-U2", fi.where, f"flag `{x}` (set when `{unparse(st.test)[:60]}`) is re-initialised for every `{v}` before it is set", st, fi)
            else:
                ctx.violation("C17-U2", fi, st, f"flag `{x}` describes the current `{v}` (set when `{unparse(st.test)[:60]}`) but is not re-initialised inside `for {v} in {unparse(loop.iter)[:30]}`: after the first `{v}` that sets it, every later one is treated the same way (stale value carried between iterations)", robust=True)
    if n < 2:
        raise AnalysisError(f"only {n} per-element flag(s) found in the BiSC helpers (2 confirmed by hand: L_is_a_key, perm_is_a_key)")


_OLD_RUN3 = run


def run(ctx: Ctx) -> None:  # noqa: F811
    _OLD_RUN3(ctx)
    ctx.run(rule_u2, ctx)


FLOORS["C17-U2"] = 2


# ------------------------------------------------------------------ M1: the filter that keeps only minimal shadings


def rule_m1(ctx: Ctx) -> None:
    """forb keeps, among the shadings found for a pattern, the inclusion-minimal ones.  The filter is sound only if each
    candidate is compared with every candidate that can be a subset of it: with the list sorted by decreasing size these
    are the later ones (R[j+1:]); sorted by increasing size, the earlier / already kept ones."""
    mod = ctx.repo.module("permuta.bisc.bisc_subfunctions")
    forb = mod.functions.get("forb")
    if forb is None:
        raise AnalysisError("forb vanished")
    found = 0
    for fi in [forb] + list(forb.nested.values()):
        for loop in walk_no_nested(fi.node):
            if not isinstance(loop, ast.For):
                continue
            tests = [st for st in loop.body if isinstance(st, ast.If) and "issubset" in unparse(st.test) or isinstance(st, ast.If) and "<=" in unparse(st.test) and "any(" in unparse(st.test)]
            if len(tests) != 1 or len(loop.body) != 1:
                continue
            st = tests[0]
            keep = [b for b in st.body if isinstance(b, ast.Expr) and isinstance(b.value, ast.Call) and isinstance(b.value.func, ast.Attribute) and b.value.func.attr == "append"]
            if len(keep) != 1:
                continue
            found += 1
            kept = unparse(keep[0].value.func.value)
            # loop shape
            if isinstance(loop.target, ast.Tuple) and isinstance(loop.iter, ast.Call) and unparse(loop.iter.func) == "enumerate" and len(loop.target.elts) == 2:
                j, r = unparse(loop.target.elts[0]), unparse(loop.target.elts[1])
                src = unparse(loop.iter.args[0])
            elif isinstance(loop.target, ast.Name):
                j, r = None, loop.target.id
                src = unparse(loop.iter)
            else:
                raise AnalysisError(f"{fi.where}: filter loop `{unparse(loop.target)}` not recognised")
            if unparse(keep[0].value.args[0]) != r:
                raise AnalysisError(f"{fi.where}: the filter keeps `{unparse(keep[0].value.args[0])}`, not the candidate")
            # sort order of the source
            from ..core import flow_env

            env = flow_env(fi, loop)
            # the source may be assigned inside an `if`: search the assignment directly
            sort_call = None
            for n in walk_no_nested(fi.node):
                if isinstance(n, ast.Assign) and unparse(n.targets[0]) == src and isinstance(n.value, ast.Call) and unparse(n.value.func) == "sorted":
                    sort_call = n.value
            _ = env
            if sort_call is None:
                raise AnalysisError(f"{fi.where}: the candidates `{src}` are not produced by sorted(...)")
            kw = {k.arg: k.value for k in sort_call.keywords}
            key = kw.get("key")
            if key is None or unparse(key) not in ("len",) and not (isinstance(key, ast.Lambda) and unparse(key.body) == f"len({key.args.args[0].arg})"):
                raise AnalysisError(f"{fi.where}: candidates are not sorted by size (`key={unparse(key) if key else None}`)")
            rev = kw.get("reverse")
            if rev is not None and not isinstance(rev, ast.Constant):
                raise AnalysisError(f"{fi.where}: sort direction not constant")
            descending = bool(rev.value) if rev is not None else False
            # the test: not any(<s subset r> for s in POOL)
            t = st.test
            if not (isinstance(t, ast.UnaryOp) and isinstance(t.op, ast.Not) and isinstance(t.operand, ast.Call) and unparse(t.operand.func) == "any" and len(t.operand.args) == 1):
                raise AnalysisError(f"{fi.where}: filter test `{unparse(t)[:60]}` not recognised")
            a = t.operand.args[0]
            if isinstance(a, ast.Call) and unparse(a.func) == "map" and len(a.args) == 2 and isinstance(a.args[0], ast.Lambda):
                s, rel, pool = a.args[0].args.args[0].arg, a.args[0].body, a.args[1]
            elif isinstance(a, ast.GeneratorExp) and len(a.generators) == 1 and not a.generators[0].ifs and isinstance(a.generators[0].target, ast.Name):
                s, rel, pool = a.generators[0].target.id, a.elt, a.generators[0].iter
            else:
                raise AnalysisError(f"{fi.where}: filter test `{unparse(t)[:60]}` not recognised")
            rel_t = unparse(rel)
            if rel_t in (f"{s}.issubset({r})", f"{s} <= {r}", f"{r}.issuperset({s})", f"{r} >= {s}"):
                pass
            elif rel_t in (f"{r}.issubset({s})", f"{r} <= {s}", f"{s}.issuperset({r})", f"{s} >= {r}"):
                ctx.violation("C17-M1", fi, st, f"the filter drops a shading when it is a subset of another one (`{rel_t}`): it keeps the maximal, not the minimal ones")
                continue
            else:
                raise AnalysisError(f"{fi.where}: relation `{rel_t}` not recognised")
            pool_t = unparse(pool)
            later = j is not None and pool_t in (f"{src}[{j} + 1:]", f"{src}[1 + {j}:]")
            earlier = (j is not None and pool_t == f"{src}[:{j}]") or pool_t == kept
            if (descending and later) or (not descending and earlier):
                ctx.ok("C17-M1", fi.where, f"minimal-elements filter: candidates sorted by {'decreasing' if descending else 'increasing'} size, each compared with the {'later (smaller)' if descending else 'earlier (smaller) kept'} ones `{pool_t}`", st, fi)
            elif later or earlier:
                ctx.violation("C17-M1", fi, st, f"candidates are sorted by {'decreasing' if descending else 'increasing'} size but each one is compared only with `{pool_t}`, which holds the {'larger' if descending else 'later, larger'} ones: a proper subset is never among them, so non-minimal shadings are kept (redundant cells in the learned patterns)", robust=True)
            elif pool_t == src:
                ctx.violation("C17-M1", fi, st, f"each candidate is compared with the whole list `{src}`, itself included: every shading is dropped")
            else:
                raise AnalysisError(f"{fi.where}: comparison pool `{pool_t}` not recognised")
    if found != 1:
        raise AnalysisError(f"{found} minimal-shading filters found in forb (1 confirmed by hand)")


_OLD_RUN4 = run


def run(ctx: Ctx) -> None:  # noqa: F811
    _OLD_RUN4(ctx)
    ctx.run(rule_m1, ctx)


FLOORS["C17-M1"] = 1


# ------------------------------------------------------------------ A3: the good/bad tables partition every level


def rule_a3(ctx: Ctx) -> None:
    """The sanity checks of auto_bisc are only as good as its two tables: for every length i up to the sanity bound,
    good[i] and bad[i] must split Perm.of_length(i) by the property.  Recognised constructions: the predicate loop
    (`if prop(p): good[i].append(p) else: bad[i].append(p)` over Perm.of_length(i)) and the complement comprehension
    (`bad[i] = [p for p in Perm.of_length(i) if p not in good[i]]`)."""
    mod = ctx.repo.module("permuta.bisc.bisc")
    f = mod.functions.get("auto_bisc")
    if f is None:
        raise AnalysisError("auto_bisc vanished")
    learn = [n for n in walk_no_nested(f.node) if isinstance(n, ast.Call) and call_name(n) == ("bisc",)]
    bads = [n for n in walk_no_nested(f.node) if isinstance(n, ast.Call) and call_name(n) and call_name(n)[-1] == "patterns_suffice_for_bad" and len(n.args) >= 3]
    if len(learn) != 1 or not bads:
        raise AnalysisError(f"{f.where}: learning / sanity calls not recognised")
    good, bad = unparse(learn[0].args[0]), unparse(bads[0].args[2])
    prop = f.params[0]
    bound_names = {unparse(n.args[1]) for n in bads}
    if len(bound_names) != 1:
        raise AnalysisError(f"{f.where}: sanity bound not recognised")
    bound = bound_names.pop()
    found = 0
    for lp in walk_no_nested(f.node):
        if not (isinstance(lp, ast.For) and isinstance(lp.target, ast.Name)):
            continue
        i = lp.target.id
        # (P) predicate loop
        inner = [st for st in lp.body if isinstance(st, ast.For) and unparse(st.iter).startswith("Perm.of_length(")]
        for pl in inner:
            if not isinstance(pl.target, ast.Name):
                continue
            p = pl.target.id
            found += 1
            if unparse(pl.iter) != f"Perm.of_length({i})":
                ctx.violation("C17-A3", f, pl, f"the tables of length {i} are filled from `{unparse(pl.iter)}`", robust=True)
                continue
            if not (len(pl.body) == 1 and isinstance(pl.body[0], ast.If)):
                raise AnalysisError(f"{f.where}: body of the loop over Perm.of_length({i}) not recognised")
            iff = pl.body[0]
            t = unparse(iff.test)
            pos = t == f"{prop}({p})"
            negated = t == f"not {prop}({p})"
            if not (pos or negated):
                raise AnalysisError(f"{f.where}: routing test `{t}` not recognised")
            want_then, want_else = (good, bad) if pos else (bad, good)

            def appends(stmts):
                out = []
                for st in stmts:
                    if isinstance(st, ast.Expr) and isinstance(st.value, ast.Call) and isinstance(st.value.func, ast.Attribute) and st.value.func.attr == "append" and isinstance(st.value.func.value, ast.Subscript):
                        out.append((unparse(st.value.func.value.value), unparse(st.value.func.value.slice), unparse(st.value.args[0])))
                return out

            a_then, a_else = appends(iff.body), appends(iff.orelse)
            if a_then == [(want_then, i, p)] and a_else == [(want_else, i, p)]:
                ctx.ok("C17-A3", f.where, f"length {i}: a permutation goes to `{good}` iff the property holds, to `{bad}` otherwise", iff, f)
            elif len(a_then) <= 1 and len(a_else) <= 1 and len(iff.body) <= 1 and len(iff.orelse) <= 1:
                ctx.violation("C17-A3", f, iff, f"permutations of length {i} are routed as then -> {a_then}, else -> {a_else}; the property holders must go to `{good}[{i}]` and all others to `{bad}[{i}]`", robust=True)
            else:
                raise AnalysisError(f"{f.where}: routing of the permutations of length {i} not recognised")
            # the range of lengths: the first construction must cover 0..bound, an extension (old bound, new bound]
            it = lp.iter
            if isinstance(it, ast.Call) and call_name(it) == ("range",):
                if len(it.args) == 1:
                    d = lin_diff(it.args[0], {bound: 1, "": 1})
                    if d is not None and d < 0:
                        ctx.violation("C17-A3", f, lp, f"the tables are filled for `{unparse(it)}` only; every length 0..{bound} is needed by the sanity checks", robust=True)
                    elif d is None:
                        raise AnalysisError(f"{f.where}: range `{unparse(it)}` not comparable with the sanity bound")
                elif len(it.args) == 2:
                    d1 = lin_diff(it.args[1], {bound: 1, "": 1})
                    olds = [st for st in walk_no_nested(f.node) if isinstance(st, ast.Assign) and unparse(st.value) == bound and isinstance(st.targets[0], ast.Name)]
                    old = olds[0].targets[0].id if olds else None
                    d0 = lin_diff(it.args[0], {old: 1, "": 1}) if old else None
                    if d1 is not None and d1 < 0 or (d0 is not None and d0 > 0):
                        ctx.violation("C17-A3", f, lp, f"the tables are extended over `{unparse(it)}`; every new length {old} + 1 .. {bound} is needed", robust=True)
                    elif d1 is None or d0 is None:
                        raise AnalysisError(f"{f.where}: range `{unparse(it)}` not comparable with the old and new sanity bound")
        # (C) complement comprehension
        for st in lp.body:
            if isinstance(st, ast.Assign) and isinstance(st.targets[0], ast.Subscript) and unparse(st.targets[0].value) == bad and isinstance(st.value, ast.ListComp):
                found += 1
                lc = st.value
                g = lc.generators[0]
                p = unparse(g.target)
                ok_shape = len(lc.generators) == 1 and unparse(st.targets[0].slice) == i and unparse(lc.elt) == p
                if not ok_shape:
                    raise AnalysisError(f"{f.where}: complement `{unparse(st)[:70]}` not recognised")
                if unparse(g.iter) != f"Perm.of_length({i})":
                    ctx.violation("C17-A3", f, st, f"`{bad}[{i}]` is taken from `{unparse(g.iter)}`, not from Perm.of_length({i})", robust=True)
                elif [unparse(c) for c in g.ifs] == [f"{p} not in {good}[{i}]"]:
                    ctx.ok("C17-A3", f.where, f"`{bad}[{i}]` = the permutations of length {i} that are not in `{good}[{i}]`", st, f)
                elif [unparse(c) for c in g.ifs] in ([f"{p} in {good}[{i}]"], []):
                    ctx.violation("C17-A3", f, st, f"`{bad}[{i}]` is not the complement of `{good}[{i}]` in Perm.of_length({i}) (filter: {[unparse(c) for c in g.ifs]})", robust=True)
                else:
                    raise AnalysisError(f"{f.where}: complement filter `{[unparse(c) for c in g.ifs]}` not recognised")
    # the tuple input: tables taken as given, in this order
    for st in walk_no_nested(f.node):
        if isinstance(st, ast.Assign) and isinstance(st.targets[0], ast.Name) and isinstance(st.value, ast.Subscript) and unparse(st.value.value) == prop and isinstance(st.value.slice, ast.Constant):
            found += 1
            want = {good: 0, bad: 1}.get(st.targets[0].id)
            if want is None:
                continue
            if st.value.slice.value == want:
                ctx.ok("C17-A3", f.where, f"tuple input: `{st.targets[0].id}` = component {want}", st, f)
            else:
                ctx.violation("C17-A3", f, st, f"tuple input: `{st.targets[0].id}` is taken from component {st.value.slice.value}; (good, bad) is the documented order", robust=True)
    if found < 5:
        raise AnalysisError(f"only {found} table constructions recognised in auto_bisc (5 confirmed by hand)")


_OLD_RUN5 = run


def run(ctx: Ctx) -> None:  # noqa: F811
    _OLD_RUN5(ctx)
    ctx.run(rule_a3, ctx)


FLOORS["C17-A3"] = 5


# ------------------------------------------------------------------ K2: the test the sanity checks use is 'some pattern, some shading'


def _acceptance_nodes(fi: FuncInfo) -> List[ast.AST]:
    """`S.intersection(R) == set()` / `not S.intersection(R)` / `S.isdisjoint(R)` nodes of a private test."""
    out = []
    for n in ast.walk(fi.node):
        if isinstance(n, ast.Compare) and len(n.ops) == 1 and isinstance(n.ops[0], ast.Eq) and isinstance(n.left, ast.Call) and isinstance(n.left.func, ast.Attribute) \
                and n.left.func.attr == "intersection" and unparse(n.comparators[0]) in ("set([])", "set()", "frozenset()"):
            out.append(n)
        elif isinstance(n, ast.UnaryOp) and isinstance(n.op, ast.Not) and isinstance(n.operand, ast.Call) and isinstance(n.operand.func, ast.Attribute) and n.operand.func.attr == "intersection":
            out.append(n)
        elif isinstance(n, ast.Call) and isinstance(n.func, ast.Attribute) and n.func.attr == "isdisjoint":
            out.append(n)
    return out


def rule_k2(ctx: Ctx) -> None:
    from ..core import parent_map
    from ..skelrules import check_skeleton

    repo = ctx.repo
    mod = repo.module("permuta.bisc.bisc_subfunctions")
    outer = mod.functions.get("perm_contains_cl_patts_many_shadings")
    inner = mod.functions.get("perm_contains_cl_patt_many_shadings")
    if outer is None or inner is None:
        raise AnalysisError("the containment test used by the sanity checks (perm_contains_cl_patt[s]_many_shadings) was not found")
    # (a) over the learned table: some length, some classical pattern
    ctx.run(check_skeleton, ctx, "C17-K2", outer, [
        "return any(perm_contains_cl_patt_many_shadings(a0, pat, a1[n][pat]) for n in a1.keys() for pat in a1[n].keys())",
        "return any(perm_contains_cl_patt_many_shadings(a0, pat, a1[n][pat]) for n in a1 for pat in a1[n])",
        "return any(perm_contains_cl_patt_many_shadings(a0, pat, Rs) for n in a1 for pat, Rs in a1[n].items())",
        "return any(perm_contains_cl_patt_many_shadings(a0, pat, Rs) for d in a1.values() for pat, Rs in d.items())",
    ], "a permutation is hit by the learned table iff some classical pattern of some length is contained with one of its shadings")
    # (b) for one classical pattern with several shadings: some shading
    if len(inner.params) != 3:
        raise AnalysisError(f"{inner.where}: expected (perm, patt, shadings)")
    rs = inner.params[2]
    acc = _acceptance_nodes(inner)
    if acc:
        # the hit cells are tested against the shadings here (whether they are computed here or in a helper – C17-K1)
        if len(acc) != 1:
            raise AnalysisError(f"{inner.where}: {len(acc)} acceptance tests found")
        par = parent_map(inner.node)
        n = acc0 = acc[0]
        verdict = None
        while n in par:
            p = par[n]
            if isinstance(p, ast.GeneratorExp) and len(p.generators) == 1 and unparse(p.generators[0].iter) == rs and not p.generators[0].ifs:
                q = par.get(p)
                if isinstance(q, ast.Call) and isinstance(q.func, ast.Name) and q.func.id in ("any", "all") and p is q.args[0] and acc0 is p.elt:
                    verdict = q.func.id
                    holder = q
                break
            if isinstance(p, ast.For) and unparse(p.iter) == rs:
                # for R in Rs: if <accept>: return True
                ifs = [st for st in p.body if isinstance(st, ast.If)]
                if len(p.body) == 1 and ifs and ifs[0].test is acc0 and len(ifs[0].body) == 1 and isinstance(ifs[0].body[0], ast.Return) \
                        and isinstance(ifs[0].body[0].value, ast.Constant) and ifs[0].body[0].value.value is True and not ifs[0].orelse and not p.orelse:
                    verdict, holder = "any", p
                break
            n = p
        if verdict == "any":
            ctx.ok("C17-K2", inner.where, f"an occurrence is accepted iff it respects SOME shading of `{rs}` (the learned patterns are alternatives)", holder, inner)
        elif verdict == "all":
            ctx.violation("C17-K2", inner, holder, f"an occurrence is accepted only if it respects EVERY shading in `{rs}`; the learned shadings of one classical pattern are separate mesh patterns, one of which suffices")
        else:
            raise AnalysisError(f"{inner.where}: how the acceptance test is quantified over `{rs}` is not recognised")
    else:
        ctx.run(check_skeleton, ctx, "C17-K2", inner, [
            "return any(a0.contains(MeshPatt(a1, R)) for R in a2)",
            "return any(MeshPatt(a1, R).contained_in(a0) for R in a2)",
            "return any(MeshPatt(a1, R) in a0 for R in a2)",
            "return not all(a0.avoids(MeshPatt(a1, R)) for R in a2)",
        ], "delegating form: contained iff the permutation contains the mesh pattern (patt, R) for some learned shading R")


_OLD_RUN6 = run


def run(ctx: Ctx) -> None:  # noqa: F811
    _OLD_RUN6(ctx)
    ctx.run(rule_k2, ctx)


FLOORS["C17-K2"] = 2
