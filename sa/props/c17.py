"""C17 – BiSC: the algorithm's private containment tests are clones of the mesh test."""

from __future__ import annotations

import ast
from typing import Dict, List, Optional, Tuple

from ..core import AnalysisError, FuncInfo, Repo, attr_chain, call_name, unparse, walk_no_nested
from ..report import Ctx

PROP = "C17"
FLOORS = {"C17-K1": 2}

EXPLANATION = (
    "Decided – one clause only, as a necessary condition (thin claim): the algorithm's own containment test agrees with mesh-pattern containment, in the "
    "sense that every copy of the 'cell of a non-occurrence point' computation in the package (MeshPatt._occurrences_in_perm and BiSC's three private "
    "tests) is the same computation – horizontal counter advanced exactly on occurrence points and before the skip, vertical coordinate = number of "
    "occurrence values strictly below the point, cell = (horizontal, vertical), membership tested on that cell – and BiSC's acceptance 'no hit cell "
    "intersects R' is the negation of the mesh test 'some hit cell is shaded'. NOT decided: everything else of the property (soundness up to n, "
    "completeness up to m, irredundancy, clean-up, equivalence of the input forms, auto_bisc up to length 8): mining and hitting-set search are index "
    "arithmetic on runtime data."
)


class Fingerprint:
    def __init__(self) -> None:
        self.counter: Optional[str] = None
        self.counter_init: Optional[str] = None
        self.member_test: Optional[str] = None  # 'element in candidate'
        self.inc_before_skip: bool = False
        self.inc_amount: Optional[str] = None
        self.vert_cmp: Optional[str] = None  # '<' strictness and direction, normalised "occ < point"
        self.vert_count_one: bool = False
        self.cell_order: Optional[str] = None  # 'hv' if (horizontal, vertical)
        self.use: Optional[str] = None  # 'break-if-in-shading' | 'collect'
        self.loop_over_target: bool = False
        self.node: Optional[ast.AST] = None
        self.problems: List[str] = []

    def key(self) -> Tuple:
        return (self.counter_init, self.member_test, self.inc_before_skip, self.inc_amount, self.vert_cmp, self.vert_count_one, self.cell_order, self.loop_over_target)


def find_clones(repo: Repo) -> List[Tuple[FuncInfo, ast.For, str]]:
    """Loops `for element in <perm>: if element in <candidate>: counter += 1; continue ...`
    nested in a loop over candidate occurrences."""
    out = []
    for fi in repo.all_funcs():
        for outer in walk_no_nested(fi.node):
            if not isinstance(outer, ast.For):
                continue
            for inner in outer.body:
                if isinstance(inner, ast.For) and inner.body and isinstance(inner.body[0], ast.If):
                    first = inner.body[0]
                    t = first.test
                    if isinstance(t, ast.Compare) and len(t.ops) == 1 and isinstance(t.ops[0], ast.In) and unparse(t.left) == unparse(inner.target):
                        has_continue = any(isinstance(x, ast.Continue) for x in first.body)
                        has_sum = any(isinstance(x, ast.Call) and call_name(x) == ("sum",) for st in inner.body[1:] for x in ast.walk(st))
                        if has_continue and has_sum:
                            out.append((fi, inner, unparse(t.comparators[0])))
    return out


def extract(fi: FuncInfo, outer_body_loop: ast.For, cand: str) -> Fingerprint:
    fp = Fingerprint()
    fp.node = outer_body_loop
    elem = unparse(outer_body_loop.target)
    first = outer_body_loop.body[0]
    # counter: the AugAssign inside the skip branch
    incs = [st for st in first.body if isinstance(st, ast.AugAssign)]
    conts = [i for i, st in enumerate(first.body) if isinstance(st, ast.Continue)]
    if len(incs) != 1 or not conts:
        fp.problems.append("skip branch does not advance exactly one counter")
        return fp
    fp.counter = unparse(incs[0].target)
    fp.inc_amount = ("+" if isinstance(incs[0].op, ast.Add) else type(incs[0].op).__name__) + unparse(incs[0].value)
    fp.inc_before_skip = first.body.index(incs[0]) < conts[0]
    fp.member_test = "element in candidate"
    # increments elsewhere in the loop body
    for st in outer_body_loop.body[1:]:
        for x in ast.walk(st):
            if isinstance(x, ast.AugAssign) and unparse(x.target) == fp.counter:
                fp.problems.append("horizontal counter is also advanced on non-occurrence points")
    # counter initialisation: the closest preceding assignment in the enclosing block
    parent_block = None
    for node in ast.walk(fi.node):
        for field in ("body", "orelse"):
            lst = getattr(node, field, None)
            if isinstance(lst, list) and outer_body_loop in lst:
                parent_block = lst
    if parent_block is not None:
        pos = parent_block.index(outer_body_loop)
        for st in reversed(parent_block[:pos]):
            if isinstance(st, ast.Assign) and unparse(st.targets[0]) == fp.counter:
                fp.counter_init = unparse(st.value)
                break
    # loop iterates the target permutation whose entries define the candidate
    fp.loop_over_target = True
    cand_def = None
    if parent_block is not None:
        for st in parent_block:
            if isinstance(st, ast.Assign) and unparse(st.targets[0]) == cand:
                cand_def = st.value
    if isinstance(cand_def, ast.ListComp):
        src = unparse(cand_def.elt)
        tgt = unparse(outer_body_loop.iter)
        fp.loop_over_target = src.startswith(f"{tgt}[")
        if not fp.loop_over_target:
            fp.problems.append(f"points are taken from `{tgt}` but the candidate values from `{src}`")
    # vertical coordinate
    vert_name = None
    for st in outer_body_loop.body[1:]:
        if isinstance(st, ast.Assign) and isinstance(st.value, ast.Call) and call_name(st.value) == ("sum",):
            vert_name = unparse(st.targets[0])
            ge = st.value.args[0]
            if not isinstance(ge, ast.GeneratorExp) or len(ge.generators) != 1:
                fp.problems.append("vertical count is not a single comprehension")
                continue
            g = ge.generators[0]
            fp.vert_count_one = unparse(ge.elt) == "1" and unparse(g.iter) == cand and len(g.ifs) == 1
            if len(g.ifs) == 1 and isinstance(g.ifs[0], ast.Compare) and len(g.ifs[0].ops) == 1:
                c = g.ifs[0]
                l, r, op = unparse(c.left), unparse(c.comparators[0]), type(c.ops[0])
                v = unparse(g.target)
                sym = {ast.Lt: "<", ast.LtE: "<=", ast.Gt: ">", ast.GtE: ">="}.get(op)
                if sym is None or {l, r} != {v, elem}:
                    fp.problems.append(f"vertical comparison `{unparse(c)}` is not between an occurrence value and the point")
                else:
                    if l == elem:  # point OP occ  ->  occ OP' point
                        sym = {"<": ">", "<=": ">=", ">": "<", ">=": "<="}[sym]
                    fp.vert_cmp = f"occ {sym} point"
            else:
                fp.problems.append("vertical count has no single comparison filter")
    if vert_name is None:
        fp.problems.append("vertical coordinate not found")
        return fp
    # the cell and its use
    for st in outer_body_loop.body[1:]:
        for x in ast.walk(st):
            if isinstance(x, ast.Tuple) and len(x.elts) == 2:
                a, b = unparse(x.elts[0]), unparse(x.elts[1])
                if {a, b} == {fp.counter, vert_name}:
                    fp.cell_order = "hv" if (a, b) == (fp.counter, vert_name) else "vh"
        if isinstance(st, ast.If) and isinstance(st.test, ast.Compare) and isinstance(st.test.ops[0], ast.In) and any(isinstance(b, ast.Break) for b in st.body):
            fp.use = f"reject-if-cell-in:{unparse(st.test.comparators[0])}"
        if isinstance(st, ast.If) and isinstance(st.test, ast.Compare) and isinstance(st.test.ops[0], ast.NotIn):
            fp.use = f"odd:{unparse(st.test)}"
        if isinstance(st, ast.Expr) and isinstance(st.value, ast.Call) and call_name(st.value) and call_name(st.value)[-1] == "append":
            fp.use = f"collect:{call_name(st.value)[0]}"
    return fp


WANT = {"counter_init": "0", "inc_before_skip": True, "inc_amount": "+1", "vert_cmp": "occ < point", "vert_count_one": True, "cell_order": "hv", "loop_over_target": True}


def run(ctx: Ctx) -> None:
    ctx.run(rule_k1, ctx)


def rule_k1(ctx: Ctx) -> None:
    repo = ctx.repo
    clones = find_clones(repo)
    if not clones:
        raise AnalysisError("no function classifying non-occurrence points into cells was found (C17-K1 floor is 1)")
    fps = []
    for fi, loop, cand in clones:
        fp = extract(fi, loop, cand)
        fps.append((fi, fp))
        bad = list(fp.problems)
        for k, v in WANT.items():
            got = getattr(fp, k)
            if got != v:
                bad.append({"counter_init": f"horizontal counter starts at {got}, not 0",
                            "inc_before_skip": "the horizontal counter is not advanced before the occurrence point is skipped",
                            "inc_amount": f"horizontal counter advances by {got}",
                            "vert_cmp": f"vertical coordinate counts occurrence values with `{got}`; the cell of a point is determined by the values strictly below it (occ < point)",
                            "vert_count_one": "vertical coordinate is not a plain count over the occurrence values",
                            "cell_order": "cell is recorded as (vertical, horizontal)",
                            "loop_over_target": "points and candidate values come from different permutations"}[k])
        if bad:
            for b in bad:
                ctx.violation("C17-K1", fi, loop, f"cell-of-point computation deviates from the mesh-pattern definition: {b}")
        else:
            ctx.ok("C17-K1", fi.where, f"cell of a non-occurrence point = (#occurrence points to its left, #occurrence values strictly below); use: {fp.use}", loop, fi)
    # the mesh test rejects when a hit cell is shaded; BiSC accepts when no hit cell intersects R
    mesh = [(fi, fp) for fi, fp in fps if fi.cls is not None and fi.cls.name == "MeshPatt"]
    if mesh:
        fi, fp = mesh[0]
        if fp.use is None or not fp.use.startswith("reject-if-cell-in:") or not fp.use.endswith(".shading"):
            ctx.violation("C17-K1", fi, fp.node, f"mesh test uses the cell as `{fp.use}`; an occurrence must be rejected exactly when a hit cell is in self.shading")
        else:
            ctx.ok("C17-K1", fi.where, "mesh test: reject the candidate iff some hit cell is shaded", fp.node, fi)
    for fi, fp in fps:
        if fi.cls is None and fp.use and fp.use.startswith("collect:"):
            hits = fp.use.split(":")[1]
            # acceptance: set(hits).intersection(R) == set([])
            sets = [k for k in _assigned_from(fi, f"set({hits})")] + [f"set({hits})"]
            accepted = False
            for n in ast.walk(fi.node):
                # S.intersection(R) == set([]) / set()   |   not S.intersection(R)   |   S.isdisjoint(R)
                if isinstance(n, ast.Compare) and len(n.ops) == 1 and isinstance(n.ops[0], ast.Eq) and isinstance(n.left, ast.Call) and isinstance(n.left.func, ast.Attribute) \
                        and n.left.func.attr == "intersection" and unparse(n.left.func.value) in sets and unparse(n.comparators[0]) in ("set([])", "set()", "frozenset()"):
                    accepted = True
                if isinstance(n, ast.UnaryOp) and isinstance(n.op, ast.Not) and isinstance(n.operand, ast.Call) and isinstance(n.operand.func, ast.Attribute) \
                        and n.operand.func.attr == "intersection" and unparse(n.operand.func.value) in sets:
                    accepted = True
                if isinstance(n, ast.Call) and isinstance(n.func, ast.Attribute) and n.func.attr == "isdisjoint" and unparse(n.func.value) in sets:
                    accepted = True
            if accepted:
                ctx.ok("C17-K1", fi.where, "BiSC test: accept iff no hit cell lies in the shading R (negation of the mesh rejection)", fp.node, fi)
            else:
                ctx.violation("C17-K1", fi, fp.node, "BiSC's private test does not accept exactly when no hit cell intersects the shading R")
    ctx.note(f"clone family: {[fi.qual for fi, _ in fps]}")


def _assigned_from(fi: FuncInfo, value_txt: str) -> List[str]:
    out = []
    for node in ast.walk(fi.node):
        if isinstance(node, ast.Assign) and unparse(node.value) == value_txt:
            out.append(unparse(node.targets[0]))
    return out


GENERIC_FILES = ['permuta/bisc/bisc.py', 'permuta/bisc/bisc_subfunctions.py']


def variants():
    from ..selftest import generic_silent

    return _variants() + generic_silent(GENERIC_FILES)


def _variants():
    from ..selftest import V, insert_stmt, reformat_only, rename_local, replace_expr, replace_stmt

    BS, MP = "permuta/bisc/bisc_subfunctions.py", "permuta/patterns/meshpatt.py"
    return [
        V("bisc-test-nonstrict", replace_expr(BS, "perm_contains_cl_patt_many_shadings", "candidate_elt < element", "candidate_elt <= element"), "fire", "C17-K1"),
        V("bisc-test-above", replace_expr(BS, "mesh_contains_cl_patt_many_shadings", "candidate_elt < element", "candidate_elt > element"), "fire", "C17-K1"),
        V("bisc-cell-transposed", replace_expr(BS, "mesh_contains_cl_patt_many_shadings_with_positions", "hit_boxes.append((x, y))", "hit_boxes.append((y, x))"), "fire", "C17-K1"),
        V("bisc-counter-from-1", replace_stmt(BS, "perm_contains_cl_patt_many_shadings", "x = 0", "x = 1"), "fire", "C17-K1"),
        V("bisc-counter-after-skip", replace_stmt(BS, "perm_contains_cl_patt_many_shadings", "if element in candidate: ...", "if element in candidate:\n    continue"), "fire-or-undecided", "C17-K1"),
        V("bisc-accept-when-intersects", replace_expr(BS, "perm_contains_cl_patt_many_shadings", "shit_boxes.intersection(R) == set([])", "shit_boxes.intersection(R) != set([])"), "fire", "C17-K1"),
        V("mesh-test-nonstrict", replace_expr(MP, "MeshPatt._occurrences_in_perm", "candidate_element < element", "candidate_element <= element"), "fire", "C17-K1"),
        V("mesh-test-cell-transposed", replace_expr(MP, "MeshPatt._occurrences_in_perm", "(x, y) in self.shading", "(y, x) in self.shading"), "fire", "C17-K1"),
        V("mesh-test-not-in", replace_expr(MP, "MeshPatt._occurrences_in_perm", "(x, y) in self.shading", "(x, y) not in self.shading"), "fire", "C17-K1"),
        V("mesh-counter-on-all-points", insert_stmt(MP, "MeshPatt._occurrences_in_perm", "y = sum((1 for candidate_element in candidate if candidate_element < element))", "x += 0\nx += 1", "before"), "fire", "C17-K1"),
        V("bisc-predicate-range-n", replace_expr("permuta/bisc/bisc.py", "bisc", "range(n + 1)", "range(1, n + 1)"), "fire", "C17-N1"),
        V("bisc-list-skips-empty", replace_stmt("permuta/bisc/bisc.py", "bisc", "D[len(perm)].append(perm)", "if len(perm) > 0:\n    D[len(perm)].append(perm)"), "fire", "C17-N1"),
        V("bisc-predicate-negated", replace_expr("permuta/bisc/bisc.py", "bisc", "A(perm)", "not A(perm)"), "fire", "C17-N1"),
        # silent
        V("reformat-bisc-sub", reformat_only(BS), "silent"),
        V("bisc-swap-sides", replace_expr(BS, "perm_contains_cl_patt_many_shadings", "candidate_elt < element", "element > candidate_elt"), "silent"),
        V("rename-counter", [rename_local(BS, "perm_contains_cl_patt_many_shadings", "x", "col"), rename_local(BS, "perm_contains_cl_patt_many_shadings", "y", "row")], "silent"),
    ]


# ------------------------------------------------------------------ N1: input normalisation


def rule_n1(ctx: Ctx) -> None:
    """List, predicate and dictionary inputs are all turned into {length: [permutations]} before mining:
    the list is grouped by length without filtering, the predicate is evaluated on every permutation of every
    length 0..n, the dictionary is used as given; then mine -> forb with the same bounds."""
    bisc_mod = ctx.repo.module("permuta.bisc.bisc")
    f = bisc_mod.functions.get("bisc")
    if f is None:
        raise AnalysisError("permuta.bisc.bisc.bisc vanished")
    a, m, n = f.params[0], f.params[1], f.params[2]
    chain = [st for st in f.body if isinstance(st, ast.If) and f"isinstance({a}" in unparse(st.test)]
    if len(chain) != 1:
        raise AnalysisError(f"{f.where}: dispatch on the input form not recognised")
    cur: Optional[ast.If] = chain[0]
    seen = {}
    while cur is not None:
        seen[unparse(cur.test)] = cur
        cur = cur.orelse[0] if len(cur.orelse) == 1 and isinstance(cur.orelse[0], ast.If) else None
    lst = seen.get(f"isinstance({a}, list)")
    fn = seen.get(f"isinstance({a}, types.FunctionType)")
    dc = seen.get(f"isinstance({a}, dict)")
    if lst is None or fn is None or dc is None:
        raise AnalysisError(f"{f.where}: the three input forms are not all dispatched")
    # list
    loops = [s for s in lst.body if isinstance(s, ast.For)]
    ok = len(loops) == 1 and unparse(loops[0].iter) == a and len(loops[0].body) == 1
    d_name = None
    for s in lst.body:
        if isinstance(s, ast.Assign) and unparse(s.value) in ("defaultdict(list)", "collections.defaultdict(list)"):
            d_name = unparse(s.targets[0])
    if ok:
        p = unparse(loops[0].target)
        ok = isinstance(loops[0].body[0], ast.Expr) and unparse(loops[0].body[0]) == f"{d_name}[len({p})].append({p})"
    if ok and d_name:
        ctx.ok("C17-N1", f.where, "list input: every permutation filed under its length", loops[0], f)
    else:
        ctx.violation("C17-N1", f, lst, "list input is not grouped as D[len(perm)].append(perm) for every element")
    # predicate
    outer = [s for s in fn.body if isinstance(s, ast.For)]
    good = False
    if len(outer) == 1 and unparse(outer[0].iter) == f"range({n} + 1)" and len(outer[0].body) == 1 and isinstance(outer[0].body[0], ast.For):
        i = unparse(outer[0].target)
        inner = outer[0].body[0]
        p = unparse(inner.target)
        if unparse(inner.iter) == f"Perm.of_length({i})" and len(inner.body) == 1 and isinstance(inner.body[0], ast.If) and unparse(inner.body[0].test) == f"{a}({p})" \
                and len(inner.body[0].body) == 1 and isinstance(inner.body[0].body[0], ast.Expr) and unparse(inner.body[0].body[0]).endswith(f"[{i}].append({p})") and not inner.body[0].orelse:
            good = True
    if good:
        ctx.ok("C17-N1", f.where, "predicate input: exactly the permutations of lengths 0..n satisfying it, filed under their length", outer[0], f)
    else:
        ctx.violation("C17-N1", f, fn, f"predicate input is not expanded to {{i: [p in S_i if A(p)]}} for i in range({n} + 1)")
    # dict
    if [unparse(s) for s in dc.body] == [f"{d_name} = {a}"]:
        ctx.ok("C17-N1", f.where, "dictionary input is used as given", dc, f)
    else:
        ctx.violation("C17-N1", f, dc, "dictionary input is transformed before mining")
    # pipeline: mine(D, m, n) -> forb(<both results of mine>, m) -> returned
    mines = [st for st in f.body if isinstance(st, ast.Assign) and isinstance(st.value, ast.Call) and call_name(st.value) == ("mine",)]
    forbs = [st for st in f.body if isinstance(st, ast.Assign) and isinstance(st.value, ast.Call) and call_name(st.value) == ("forb",)]
    rets = [st for st in f.body if isinstance(st, ast.Return)]
    if len(mines) != 1 or len(forbs) != 1 or len(rets) != 1 or not isinstance(mines[0].targets[0], ast.Tuple):
        raise AnalysisError(f"{f.where}: mine/forb pipeline not recognised")
    mres = [unparse(e) for e in mines[0].targets[0].elts]
    margs = [unparse(x) for x in mines[0].value.args]
    fargs = [unparse(x) for x in forbs[0].value.args]
    if margs[:3] == [d_name, m, n] and fargs[:3] == mres + [m] and unparse(rets[0].value) == unparse(forbs[0].targets[0]):
        ctx.ok("C17-N1", f.where, "mine(D, m, n) -> forb(ci, goodpatts, m) -> result", f.node, f)
    else:
        ctx.violation("C17-N1", f, mines[0], f"the pipeline is mine({', '.join(margs)}) -> forb({', '.join(fargs)}); expected mine({d_name}, {m}, {n}) -> forb({', '.join(mres)}, {m}) and its result returned")


_OLD_RUN = run


def run(ctx: Ctx) -> None:  # noqa: F811
    _OLD_RUN(ctx)
    ctx.run(rule_n1, ctx)


FLOORS["C17-N1"] = 4
EXPLANATION = EXPLANATION.replace("Decided – one clause only,", "Decided – two clauses: the three input forms are normalised to the same {length: [permutations]} dictionary before mining (N1); and,")
