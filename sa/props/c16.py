"""C16 – the 'finitely many simples' verdict: one decision procedure behind every entry point."""

from __future__ import annotations

import ast
from typing import Dict, List, Optional, Tuple

from ..core import AnalysisError, FuncInfo, Repo, attr_chain, call_name, unparse, walk_no_nested
from ..report import Ctx
from ..skelrules import check_skeleton
from .c12 import perm_literal_name

PROP = "C16"
FLOORS = {"C16-W1": 4, "C16-W2": 3, "C16-W3": 6}

EXPLANATION = (
    "Decided at composition level: (a) wherever the decision is offered it is the same computation – the CLI goes through Av.has_finitely_many_simples, "
    "which is is_finite Or is_polynomial Or PinWords.has_finite_simples(basis) with the basis unchanged and the result un-negated, and the enumeration "
    "strategy calls PinWords.has_finite_simples(basis) (W1); (b) has_finite_special_simples requires all three special tests, has_finite_simples requires "
    "the special tests And the pin-permutation test, and the latter is finiteness of M minus L(basis) in that order (W2); (c) the three special tests are "
    "one skeleton – Not Exists sym in all_symmetry_sets(T): Forall x in basis: Exists p in sym: x contains p – over the full orbit of a table of valid "
    "permutations (W3), hence independent of the order of basis elements. (d) each table is, modulo the eight symmetries, the basis of the downward closure of the family it stands for (parallel alternations, wedge simples of type 1 / type 2), derived by the checker from the family (W5). NOT decided: that the automaton language is "
    "right (C15), agreement with the actual simples, symmetry invariance, and that the finite/polynomial short-circuits agree with the pin-word procedure."
)


def run(ctx: Ctx) -> None:
    ctx.run(rule_w1, ctx)
    ctx.run(rule_w2, ctx)
    ctx.run(rule_w3, ctx)


def rule_w1(ctx: Ctx) -> None:
    repo = ctx.repo
    av = repo.need_method("Av", "has_finitely_many_simples")
    ctx.run(check_skeleton, ctx, "C16-W1", av, [
        "if isinstance(self.basis, MeshBasis):\n    raise NotImplementedError(Av._BASIS_ONLY_MSG)\nreturn self.is_finite() or self.is_polynomial() or PinWords.has_finite_simples(self.basis)",
        "if isinstance(self.basis, MeshBasis):\n    raise NotImplementedError(Av._BASIS_ONLY_MSG)\nreturn PinWords.has_finite_simples(self.basis)",
    ], "Av.has_finitely_many_simples = is_finite Or is_polynomial Or PinWords.has_finite_simples(basis)", required_calls=["has_finite_simples"])
    st = repo.need_method("FinitelyManySimplesStrategy", "applies")
    ctx.run(check_skeleton, ctx, "C16-W1", st, ["return PinWords.has_finite_simples(self.basis)"], "strategy applies = PinWords.has_finite_simples(basis)", required_calls=["has_finite_simples"])
    for user in (av, st):
        r = repo.resolve_name(user.module, "PinWords")
        if r is not None and getattr(r, "name", None) == "PinWords":
            ctx.ok("C16-W1", user.where, "PinWords resolves to permutils.pin_words.PinWords")
        else:
            raise AnalysisError(f"{user.where}: PinWords does not resolve")
    cli = repo.module("permuta.cli").functions.get("has_finitely_many_simples")
    if cli is None:
        raise AnalysisError("CLI has_finitely_many_simples vanished")
    from ..core import inlined_text

    from ..core import flow_env, reach_conditions, subst_names

    arg = cli.params[0]
    decision = {"T": None}

    def classify(test: ast.AST):
        env = flow_env(cli, test)
        t = unparse(subst_names(test, env)).replace(f"Basis.from_string({arg}.basis)", "basis")
        if t == "Av(basis).has_finitely_many_simples()":
            return "T"
        if t == "not Av(basis).has_finitely_many_simples()":
            return "F"
        if "has_finite" in t:
            decision["other"] = t
        return None

    def wanted(n: ast.AST) -> bool:
        return isinstance(n, ast.Call) and call_name(n) == ("print",) and n.args and "many simples" in unparse(n.args[0])

    reach = reach_conditions(cli, wanted, classify)
    if "other" in decision:
        ctx.violation("C16-W1", cli, cli.node, f"CLI decides by `{decision['other']}` instead of Av(basis).has_finitely_many_simples(): a different (partial) computation than the other entry points")
        return
    if len(reach) != 2:
        raise AnalysisError(f"{cli.where}: expected two verdict messages, found {len(reach)}")
    bad = []
    for n, c in reach:
        msg = unparse(n.args[0])
        positive = " finitely many" in msg and "infinitely" not in msg
        negative = "infinitely many" in msg
        if positive == negative or c not in ("T", "F"):
            raise AnalysisError(f"{cli.where}: verdict message `{msg[:50]}` / its condition ({c}) not recognised")
        if (positive and c == "F") or (negative and c == "T"):
            bad.append(msg)
    if bad:
        ctx.violation("C16-W1", cli, reach[0][0], f"CLI messages are swapped: {bad[0][:70]!r} is printed for the opposite verdict")
    else:
        ctx.ok("C16-W1", cli.where, "CLI prints 'finitely many' exactly when Av(basis).has_finitely_many_simples(), 'infinitely many' otherwise", reach[0][0], cli)


def rule_w2(ctx: Ctx) -> None:
    repo = ctx.repo
    sp = repo.need_method("PinWords", "has_finite_special_simples")
    ctx.run(check_skeleton, ctx, "C16-W2", sp, ["return cls.has_finite_alternations(a0) and cls.has_finite_wedges_type_1(a0) and cls.has_finite_wedges_type_2(a0)"],
            "has_finite_special_simples = alternations And wedges_1 And wedges_2", required_calls=["has_finite_alternations", "has_finite_wedges_type_1", "has_finite_wedges_type_2"])
    fs = repo.need_method("PinWords", "has_finite_simples")
    ctx.run(check_skeleton, ctx, "C16-W2", fs, [
        "other = cls.has_finite_special_simples(a0)\nif not a2 and not other:\n    return False\npin = cls.has_finite_pinperms(a0, a1, a3)\nreturn pin and other",
        "return cls.has_finite_special_simples(a0) and cls.has_finite_pinperms(a0, a1, a3)",
    ], "has_finite_simples = special And pinperms", required_calls=["has_finite_special_simples", "has_finite_pinperms"])
    defaults = fs.node.args.defaults
    names = fs.params[-len(defaults):] if defaults else []
    dmap = {n: unparse(d) for n, d in zip(names, defaults)}
    if len(fs.params) >= 4 and dmap.get(fs.params[3]) == "False":
        ctx.ok("C16-W2", fs.where, "check_all defaults to False (early False when the special tests fail)", fs.node, fs)
    pp = repo.need_method("PinWords", "has_finite_pinperms")
    ctx.run(check_skeleton, ctx, "C16-W2", pp, [
        "if a2 is None:\n    a2 = cls.make_dfa_for_basis(a0, a1)\na2 = cls.make_dfa_for_m().difference(a2)\nreturn a2.isfinite() is True",
        "if a2 is None:\n    a2 = cls.make_dfa_for_basis(a0, a1)\nreturn cls.make_dfa_for_m().difference(a2).isfinite()",
    ], "has_finite_pinperms = finiteness of M \\ L(basis) (M on the left)", required_calls=["make_dfa_for_m", "difference", "isfinite"])


TABLES = {"has_finite_alternations": 3, "has_finite_wedges_type_1": 10, "has_finite_wedges_type_2": 10}


def rule_w3(ctx: Ctx) -> None:
    repo = ctx.repo
    for name, size in TABLES.items():
        f = repo.need_method("PinWords", name)
        ctx.run(check_special, ctx, f, size)
    r = repo.resolve_name(repo.cls("PinWords").module, "all_symmetry_sets")
    if isinstance(r, FuncInfo) and r.where == "permuta.permutils.symmetry:all_symmetry_sets":
        ctx.ok("C16-W3", "permuta.permutils.pin_words:all_symmetry_sets", "resolves to the orbit builder (whole orbit decided under C04-A4)")
    else:
        raise AnalysisError("all_symmetry_sets in pin_words does not resolve to the orbit builder")


def check_special(ctx: Ctx, f: FuncInfo, size: int) -> None:
    tables = [st for st in f.body if isinstance(st, ast.Assign) and isinstance(st.value, ast.Tuple)]
    if len(tables) != 1:
        raise AnalysisError(f"{f.where}: table literal not found")
    tname = unparse(tables[0].targets[0])
    ttext = unparse(tables[0].value)
    spec = f"for sym in all_symmetry_sets({ttext}):\n    if all(any(x.contains(p) for p in sym) for x in a0):\n        return False\nreturn True"
    spec2 = f"return not any(all(any(x.contains(p) for p in sym) for x in a0) for sym in all_symmetry_sets({ttext}))"
    check_skeleton(ctx, "C16-W3", f, [spec, spec2], required_calls=["all_symmetry_sets", "contains"], what=f"{f.name} = Not Exists sym in all_symmetry_sets({tname}): Forall x in basis: Exists p in sym: x.contains(p)")
    # well-formedness of the table
    names = []
    for e in tables[0].value.elts:
        nm = perm_literal_name(e)
        if nm is None:
            ctx.violation("C16-W3", f, tables[0], f"table entry {unparse(e)} is not a valid permutation literal")
            return
        names.append(nm)
    if len(set(names)) != len(names):
        ctx.violation("C16-W3", f, tables[0], "table lists a permutation twice (another one is missing)")
        return
    if len(names) != size:
        ctx.violation("C16-W3", f, tables[0], f"table has {len(names)} permutations; the class it describes has {size} basis elements")
        return
    ctx.ok("C16-W3", f.where, f"table {tname}: {size} distinct valid permutations", tables[0], f)


GENERIC_FILES = ['permuta/permutils/pin_words.py', 'permuta/perm_sets/permset.py', 'permuta/enumeration_strategies/finitely_many_simples.py', 'permuta/cli.py']


def variants():
    from ..selftest import generic_equiv, generic_silent

    return _variants() + generic_silent(GENERIC_FILES) + generic_equiv(GENERIC_FILES)


def _variants():
    from ..selftest import V, insert_stmt, reformat_only, rename_local, replace_expr, replace_stmt

    PW, PS, CL, FM = "permuta/permutils/pin_words.py", "permuta/perm_sets/permset.py", "permuta/cli.py", "permuta/enumeration_strategies/finitely_many_simples.py"
    return [
        V("av-only-special", replace_expr(PS, "Av.has_finitely_many_simples", "PinWords.has_finite_simples(self.basis)", "PinWords.has_finite_special_simples(self.basis)"), "fire", "C16-W1"),
        V("av-and", replace_expr(PS, "Av.has_finitely_many_simples", "self.is_finite() or self.is_polynomial() or PinWords.has_finite_simples(self.basis)", "self.is_finite() and self.is_polynomial() and PinWords.has_finite_simples(self.basis)"), "fire", "C16-W1"),
        V("av-negated", replace_expr(PS, "Av.has_finitely_many_simples", "PinWords.has_finite_simples(self.basis)", "not PinWords.has_finite_simples(self.basis)"), "fire", "C16-W1"),
        V("strategy-special-only", replace_expr(FM, "FinitelyManySimplesStrategy.applies", "PinWords.has_finite_simples(self.basis)", "PinWords.has_finite_special_simples(self.basis)"), "fire", "C16-W1"),
        V("cli-messages-swapped", replace_expr(CL, "has_finitely_many_simples", "perm_class.has_finitely_many_simples()", "not perm_class.has_finitely_many_simples()"), "fire", "C16-W1"),
        V("cli-calls-pinwords-directly", [replace_expr(CL, "has_finitely_many_simples", "perm_class.has_finitely_many_simples()", "PinWords.has_finite_special_simples(basis)"),
                                          insert_stmt(CL, None, "from permuta import Av, Basis", "from permuta.permutils.pin_words import PinWords", "after")], "fire", "C16-W1"),
        V("special-drops-wedge2", replace_stmt(PW, "PinWords.has_finite_special_simples", "if not wedge2: ...", ""), "fire", "C16-W2"),
        V("special-or", replace_stmt(PW, "PinWords.has_finite_special_simples", "if not alt: ...", "if alt:\n    return True"), "fire", "C16-W2"),
        V("simples-or", replace_expr(PW, "PinWords.has_finite_simples", "pin and other", "pin or other"), "fire", "C16-W2"),
        V("simples-pin-only", replace_stmt(PW, "PinWords.has_finite_simples", "return pin and other", "return pin"), "fire", "C16-W2"),
        V("pinperms-difference-reversed", replace_expr(PW, "PinWords.has_finite_pinperms", "cls.make_dfa_for_m().difference(dfa)", "dfa.difference(cls.make_dfa_for_m())"), "fire", "C16-W2"),
        V("pinperms-not-finite", replace_expr(PW, "PinWords.has_finite_pinperms", "dfa.isfinite() is True", "dfa.isfinite() is False"), "fire", "C16-W2"),
        V("alternations-any-all-swapped", replace_expr(PW, "PinWords.has_finite_alternations", "all((any((x.contains(p) for p in sym)) for x in basis))", "any((all((x.contains(p) for p in sym)) for x in basis))"), "fire", "C16-W3"),
        V("wedge1-avoids", replace_expr(PW, "PinWords.has_finite_wedges_type_1", "x.contains(p)", "x.avoids(p)"), "fire", "C16-W3"),
        V("wedge2-no-symmetries", replace_expr(PW, "PinWords.has_finite_wedges_type_2", "all_symmetry_sets(wedge2_b)", "[wedge2_b]"), "fire", "C16-W3"),
        V("wedge2-always-false", replace_stmt(PW, "PinWords.has_finite_wedges_type_2", "return True", "return False"), "fire", "C16-W3"),
        V("alternations-table-invalid", replace_expr(PW, "PinWords.has_finite_alternations", "Perm((1, 3, 0, 2))", "Perm((1, 3, 1, 2))"), "fire", "C16-W3"),
        V("wedge1-table-typo", replace_expr(PW, "PinWords.has_finite_wedges_type_1", "Perm((0, 2, 1, 3))", "Perm((0, 2, 3, 1))"), "fire", "C16-W5"),
        V("alt-table-typo", replace_expr(PW, "PinWords.has_finite_alternations", "Perm((1, 3, 0, 2))", "Perm((1, 3, 2, 0))"), "fire", "C16-W5"),
        V("wedge2-table-symmetric-image", replace_expr(PW, "PinWords.has_finite_wedges_type_2", "(Perm((1, 0, 2, 3)), Perm((1, 0, 3, 2)), Perm((2, 0, 1, 3)), Perm((2, 0, 3, 1)), Perm((2, 1, 3, 0)), Perm((2, 3, 0, 1)), Perm((3, 0, 1, 2)), Perm((3, 0, 2, 1)), Perm((3, 1, 2, 0)), Perm((3, 2, 0, 1)))",
          "(" + ", ".join("Perm(%r)" % (tuple(reversed(q)),) for q in [(1, 0, 2, 3), (1, 0, 3, 2), (2, 0, 1, 3), (2, 0, 3, 1), (2, 1, 3, 0), (2, 3, 0, 1), (3, 0, 1, 2), (3, 0, 2, 1), (3, 1, 2, 0), (3, 2, 0, 1)]) + ")"), "silent", note="the reversed table describes the same union of symmetric classes"),
        V("wedge1-table-duplicate", replace_expr(PW, "PinWords.has_finite_wedges_type_1", "Perm((3, 2, 0, 1))", "Perm((3, 1, 2, 0))"), "fire", "C16-W3"),
        V("m-accepts-UU", replace_expr(PW, "PinWords.make_dfa_for_m", "{'U': 3, 'D': 3, 'L': 2, 'R': 2}", "{'U': 1, 'D': 3, 'L': 2, 'R': 2}"), "fire", "C16-W4"),
        V("m-dead-state-accepting", replace_expr(PW, "PinWords.make_dfa_for_m", "frozenset({0, 1, 2})", "frozenset({0, 1, 2, 3})", which=1), "fire-or-undecided", "C16-W4"),
        V("m-rejects-empty", replace_expr(PW, "PinWords.make_dfa_for_m", "frozenset({0, 1, 2})", "frozenset({1, 2})"), "fire", "C16-W4"),
        V("pinwords-stop-at-first-non-pin", replace_stmt(PW, "PinWords.pinwords_for_basis", "res.extend(cls.perm_to_pinword_mapping(len(perm))[perm])",
                                                    "pinwords = cls.perm_to_pinword_mapping(len(perm)).get(perm)\nif pinwords is None:\n    break\nres.extend(pinwords)"), "fire", "C16-W6"),
        V("pinwords-first-element-only", replace_stmt(PW, "PinWords.pinwords_for_basis", "res.extend(cls.perm_to_pinword_mapping(len(perm))[perm])", "return list(cls.perm_to_pinword_mapping(len(perm))[perm])"), "fire", "C16-W6"),
        V("basis-dfa-intersection", replace_stmt(PW, "PinWords.make_dfa_for_basis_from_pinwords", "out_dfa = out_dfa.union(out_dfa2)", "out_dfa = out_dfa.intersection(out_dfa2)"), "fire", "C16-W6"),
        V("db-dfa-stops-early", insert_stmt(PW, "PinWords.make_dfa_for_basis_from_db", "out_dfa = out_dfa.union(out_dfa2)", "if out_dfa2.isempty():\n    break", "before"), "fire", "C16-W6"),
        # silent
        V("pinwords-comprehension", [replace_stmt(PW, "PinWords.pinwords_for_basis", "for perm in basis: ...", "return [w for perm in basis for w in cls.perm_to_pinword_mapping(len(perm))[perm]]"),
                                     replace_stmt(PW, "PinWords.pinwords_for_basis", "res = []", ""), replace_stmt(PW, "PinWords.pinwords_for_basis", "return res", "")], "silent"),
        V("pinwords-augmented-add", replace_stmt(PW, "PinWords.pinwords_for_basis", "res.extend(cls.perm_to_pinword_mapping(len(perm))[perm])", "res += cls.perm_to_pinword_mapping(len(perm))[perm]"), "silent"),
        V("basis-dfa-or-operator", replace_stmt(PW, "PinWords.make_dfa_for_basis_from_pinwords", "out_dfa = out_dfa.union(out_dfa2)", "out_dfa = out_dfa | out_dfa2"), "silent"),
        V("reformat-pinwords", reformat_only(PW), "silent"),
        V("special-and-chain", replace_stmt(PW, "PinWords.has_finite_special_simples", "alt = cls.has_finite_alternations(basis)", "alt = cls.has_finite_alternations(basis) and True"), "silent"),
        V("alternations-not-any", replace_stmt(PW, "PinWords.has_finite_alternations", "for sym in all_symmetry_sets(alt_basis): ...", "return not any((all((any((x.contains(p) for p in sym)) for x in basis)) for sym in all_symmetry_sets(alt_basis)))\n"), "silent"),
        V("rename-basis", rename_local(PW, "PinWords.has_finite_wedges_type_1", "wedge1_b", "table"), "silent"),
    ]


# ------------------------------------------------------------------ W4: the language M (table validation)


def rule_w4(ctx: Ctx) -> None:
    """make_dfa_for_m is a literal automaton: validate that it accepts exactly the direction words in which no two
    consecutive letters move along the same axis (the pin-sequence language M used by has_finite_pinperms)."""
    from ..core import const_value

    f = ctx.repo.need_method("PinWords", "make_dfa_for_m")
    calls = [n for n in walk_no_nested(f.node) if isinstance(n, ast.Call) and call_name(n) == ("DFA",)]
    if len(calls) != 1:
        raise AnalysisError(f"{f.where}: DFA literal not found")
    kw = {k.arg: k.value for k in calls[0].keywords}
    try:
        trans = {const_value(k): {const_value(a): const_value(b) for a, b in zip(v.keys, v.values)} for k, v in zip(kw["transitions"].keys, kw["transitions"].values)}
        init = const_value(kw["initial_state"])
        finals = {const_value(e) for e in kw["final_states"].args[0].elts}
        states = {const_value(e) for e in kw["states"].args[0].elts}
    except (KeyError, ValueError, AttributeError, IndexError):
        raise AnalysisError(f"{f.where}: DFA literal is not a table of constants")
    if unparse(kw.get("input_symbols")) != "frozenset(DIRS)":
        raise AnalysisError(f"{f.where}: alphabet is not frozenset(DIRS)")
    axis = {"U": "v", "D": "v", "L": "h", "R": "h"}
    if set(trans) != states or any(set(t) != set(axis) for t in trans.values()):
        ctx.violation("C16-W4", f, calls[0], "the automaton for M is not complete over the four direction letters")
        return
    undefined = sorted({t for tr in trans.values() for t in tr.values()} - states, key=str)
    if undefined or init not in states or not finals <= states:
        ctx.violation("C16-W4", f, calls[0], f"the automaton for M refers to state(s) {undefined or [init]} that are not among its states")
        return
    # product with the reference automaton (last axis, dead) – explore all reachable pairs
    seen = set()
    todo = [(init, "start")]
    while todo:
        q, ref = todo.pop()
        if (q, ref) in seen:
            continue
        seen.add((q, ref))
        if (q in finals) != (ref != "dead"):
            ctx.violation("C16-W4", f, calls[0], f"state {q} is {'accepting' if q in finals else 'rejecting'} after a word that is {'not ' if ref == 'dead' else ''}in M (no two consecutive letters along one axis)")
            return
        for a, ax in axis.items():
            nref = "dead" if ref == "dead" or ref == ax else ax
            todo.append((trans[q][a], nref))
    ctx.ok("C16-W4", f.where, f"the literal automaton accepts exactly the alternating direction words ({len(seen)} product states explored)", calls[0], f)


_OLD_RUN = run



# ----------------------------------------------------------------------------- C16-W5: the tables are the bases of the classes they stand for
# The three tests ask "does every basis element lie outside the closure of a family of simple permutations?".  The literal table
# must therefore be the basis of the downward closure of that family (Brignall-Huczynska-Vatter; Bassino-Bouvel-Pierrot-Rossin
# Thm: Av(1243,1324,1423,1432,2431,3124,4123,4132,4231,4312) for type 1, Av(2134,2143,3124,3142,3241,3412,4123,4132,4231,4312)
# for type 2, Av(123,2413,3412) for parallel alternations).  The checker derives each basis from the generating family itself
# (own tuple arithmetic below; nothing of the repository is executed) and compares it with the literal modulo the eight
# symmetries, because the code closes the table under all of them.
from itertools import combinations, permutations
def std(seq):
    s=sorted(seq); return tuple(s.index(x) for x in seq)
def patterns(p, k):
    return {std([p[i] for i in idx]) for idx in combinations(range(len(p)), k)}
def contains(p, q):
    return q in patterns(p, len(q))
def rev(p): return tuple(reversed(p))
def comp(p): n=len(p); return tuple(n-1-x for x in p)
def inv(p):
    r=[0]*len(p)
    for i,x in enumerate(p): r[x]=i
    return tuple(r)
D4=[lambda p:p, rev, comp, lambda p: rev(comp(p)), inv, lambda p: inv(rev(p)), lambda p: inv(comp(p)), lambda p: inv(rev(comp(p)))]
def closure_basis(members, maxlen=4):
    basis=[]
    for k in range(1, maxlen+1):
        present=set()
        for m in members:
            if len(m)>=k: present |= patterns(m,k)
        for q in permutations(range(k)):
            if q not in present and not any(contains(q,b) for b in basis):
                basis.append(q)
    return set(basis)
def parallel_alt(m):
    out=[]
    for i in range(m): out += [m-1-i, 2*m-1-i]
    return tuple(out)
def wedge1(n, down_first):
    c = -(-(n-1)//2) if down_first else (n-1)//2
    out=[]; d=c-1; u=c+1; turn=down_first
    for _ in range(n-1):
        if turn: out.append(d); d-=1
        else: out.append(u); u+=1
        turn = not turn
    out.append(c)
    assert sorted(out)==list(range(n)), out
    return tuple(out)
def wedge2(n):
    rest=list(range(n-2))
    L=[v for v in rest if v%2==1]; R=[v for v in reversed(rest) if v%2==0]
    return tuple(L+[n-1]+R+[n-2])


FAMILIES = {
    "has_finite_alternations": ("parallel alternations (m-1, 2m-1, m-2, 2m-2, ...)", lambda: [parallel_alt(m) for m in range(2, 7)]),
    "has_finite_wedges_type_1": ("wedge simples of type 1 (c-1, c+1, c-2, c+2, ..., c and its up-first twin)", lambda: [wedge1(n, d) for n in range(5, 13) for d in (True, False)]),
    "has_finite_wedges_type_2": ("wedge simples of type 2 (1, 3, 5, ..., n-1, ..., 4, 2, 0, n-2)", lambda: [wedge2(n) for n in range(5, 13)]),
}


def literal_table(f: FuncInfo):
    tables = [st for st in f.body if isinstance(st, ast.Assign) and isinstance(st.value, ast.Tuple)]
    if len(tables) != 1:
        raise AnalysisError(f"{f.where}: table literal not found")
    out = []
    for e in tables[0].value.elts:
        if not (isinstance(e, ast.Call) and unparse(e.func) == "Perm" and len(e.args) == 1 and isinstance(e.args[0], (ast.Tuple, ast.List))
                and all(isinstance(x, ast.Constant) and isinstance(x.value, int) for x in e.args[0].elts)):
            raise AnalysisError(f"{f.where}: table entry {unparse(e)} is not a Perm((...)) literal")
        out.append(tuple(x.value for x in e.args[0].elts))
    return tables[0], out


def rule_w5(ctx: Ctx) -> None:
    for name, (what, fam) in FAMILIES.items():
        f = ctx.repo.need_method("PinWords", name)
        node, table = literal_table(f)
        want = closure_basis(fam())
        got = set(table)
        images = [{g(q) for q in want} for g in D4]
        if got in images:
            ctx.ok("C16-W5", f.where, f"table = basis of the closure of the {what}, up to symmetry ({len(want)} permutations derived from the family)", node, f)
            continue
        best = min(images, key=lambda im: len(im ^ got))
        extra = sorted(got - best)
        missing = sorted(best - got)
        ctx.violation("C16-W5", f, node, f"the table is not the basis of the closure of the {what}: {extra} should not be listed, {missing} is missing; classes whose basis elements meet the table only through these entries get the wrong verdict", robust=True)

def run(ctx: Ctx) -> None:  # noqa: F811
    _OLD_RUN(ctx)
    ctx.run(rule_w4, ctx)
    ctx.run(rule_w5, ctx)


FLOORS["C16-W4"] = 1
FLOORS["C16-W5"] = 3


# ----------------------------------------------------------------------------- C16-W6: the basis language is the union over ALL basis elements


def _fold_loops(f: FuncInfo):
    """For loops of ``f`` (top level of the body) that iterate a parameter or a local derived from it by sorted/list/tuple/set."""
    derived = set(f.params)
    for st in f.body:
        if isinstance(st, (ast.Assign, ast.AnnAssign)) and st.value is not None:
            tgt = st.targets[0] if isinstance(st, ast.Assign) else st.target
            v = st.value
            if isinstance(tgt, ast.Name) and isinstance(v, ast.Call) and isinstance(v.func, ast.Name) and v.func.id in ("sorted", "list", "tuple", "set", "frozenset") and v.args \
                    and isinstance(v.args[0], ast.Name) and v.args[0].id in derived:
                derived.add(tgt.id)
            elif isinstance(tgt, ast.Name) and isinstance(v, ast.Call) and f.cls is not None and isinstance(v.func, ast.Attribute) and isinstance(v.func.value, ast.Name) \
                    and v.func.value.id in ("cls", "self", f.cls.name) and any(isinstance(a, ast.Name) and a.id in derived for a in v.args):
                derived.add(tgt.id)  # e.g. pinwords = cls.pinwords_for_basis(basis)
    out = []
    for st in f.body:
        if isinstance(st, ast.For):
            it = st.iter
            if isinstance(it, ast.Call) and isinstance(it.func, ast.Name) and it.func.id in ("sorted", "list", "tuple", "set", "frozenset") and it.args:
                it = it.args[0]
            if isinstance(it, ast.Name) and it.id in derived:
                out.append(st)
    return out


def check_fold(ctx: Ctx, f: FuncInfo, what: str) -> None:
    loops = _fold_loops(f)
    if len(loops) != 1:
        # comprehension forms: every element is visited by construction when there is no filter
        rets = [st for st in f.body if isinstance(st, ast.Return)]
        if not loops and len(rets) == 1 and not any(isinstance(n, (ast.For, ast.While)) for n in walk_no_nested(f.node)):
            comps = [n for n in ast.walk(rets[0]) if isinstance(n, (ast.ListComp, ast.GeneratorExp, ast.SetComp))]
            if comps and all(not g.ifs for c in comps for g in c.generators) and any(isinstance(c.generators[0].iter, ast.Name) and c.generators[0].iter.id in f.params for c in comps):
                ctx.ok("C16-W6", f.where, f"{what}: a comprehension over the whole argument without a filter", rets[0], f)
                return
        raise AnalysisError(f"{f.where}: accumulation loop over the argument not recognised ({len(loops)} candidate loops)")
    lp = loops[0]
    if lp.orelse:
        raise AnalysisError(f"{f.where}: loop has an else clause")
    # leaving the loop early drops the elements that come later: the language then depends on the order of the basis
    def scan(stmts, in_nested_loop):
        for st in stmts:
            if isinstance(st, (ast.FunctionDef, ast.AsyncFunctionDef, ast.ClassDef)):
                continue
            if isinstance(st, ast.Return):
                return ("return", st)
            if isinstance(st, ast.Break) and not in_nested_loop:
                return ("break", st)
            if isinstance(st, ast.Continue) and not in_nested_loop:
                return ("continue", st)
            for field in ("body", "orelse", "finalbody", "handlers"):
                sub = getattr(st, field, None)
                if sub:
                    if field == "handlers":
                        for h in sub:
                            r = scan(h.body, in_nested_loop)
                            if r:
                                return r
                        continue
                    r = scan(sub, in_nested_loop or isinstance(st, (ast.For, ast.While)))
                    if r:
                        return r
        return None
    early = scan(lp.body, False)
    if early and early[0] in ("break", "return"):
        ctx.violation("C16-W6", f, early[1], f"{what}: the loop over the argument can be left early (`{early[0]}`), so elements listed later contribute nothing and the verdict depends on the order of the basis", robust=True)
        return
    if early:
        raise AnalysisError(f"{f.where}: an element can be skipped (`continue` at line {early[1].lineno}); whether its contribution is empty is not decided")
    # the accumulator: acc.extend(E) / acc += E / acc = acc.union(E) / acc = acc | E, and it is what the function returns
    rets = [st for st in f.body if isinstance(st, ast.Return)]
    if len(rets) != 1 or not isinstance(rets[0].value, ast.Name):
        raise AnalysisError(f"{f.where}: the accumulated value is not returned by name")
    acc = rets[0].value.id
    kinds = []
    for n in walk_no_nested(lp):
        if isinstance(n, ast.Expr) and isinstance(n.value, ast.Call) and isinstance(n.value.func, ast.Attribute) and isinstance(n.value.func.value, ast.Name) and n.value.func.value.id == acc:
            kinds.append((n.value.func.attr, n))
        elif isinstance(n, ast.AugAssign) and isinstance(n.target, ast.Name) and n.target.id == acc:
            kinds.append(({ast.Add: "+=", ast.BitOr: "|=", ast.BitAnd: "&=", ast.Sub: "-="}.get(type(n.op), "aug?"), n))
        elif isinstance(n, ast.Assign) and len(n.targets) == 1 and isinstance(n.targets[0], ast.Name) and n.targets[0].id == acc:
            v = n.value
            if isinstance(v, ast.Call) and isinstance(v.func, ast.Attribute) and isinstance(v.func.value, ast.Name) and v.func.value.id == acc:
                kinds.append((v.func.attr, n))
            elif isinstance(v, ast.BinOp) and isinstance(v.left, ast.Name) and v.left.id == acc:
                kinds.append(({ast.Add: "+", ast.BitOr: "|", ast.BitAnd: "&", ast.Sub: "-"}.get(type(v.op), "bin?"), n))
            else:
                kinds.append(("rebind", n))
    if len(kinds) != 1:
        raise AnalysisError(f"{f.where}: {len(kinds)} updates of `{acc}` in the loop; accumulation not recognised")
    kind, node = kinds[0]
    if kind in ("extend", "update", "+=", "|=", "union", "|", "+"):
        ctx.ok("C16-W6", f.where, f"{what}: every element of the argument is visited and its contribution is joined (`{kind}`) to the result", node, f)
    elif kind in ("intersection", "&", "&=", "difference", "-", "-=", "intersection_update", "difference_update"):
        ctx.violation("C16-W6", f, node, f"{what}: contributions are combined with `{kind}`, not joined: the result is not the union over the basis elements", robust=True)
    else:
        raise AnalysisError(f"{f.where}: update `{kind}` of the accumulator not recognised")


def rule_w6(ctx: Ctx) -> None:
    for name, what in (("pinwords_for_basis", "pin words of a basis = the pin words of every element"),
                       ("make_dfa_for_basis_from_pinwords", "automaton of a basis = union of the automata of every pin word"),
                       ("make_dfa_for_basis_from_db", "automaton of a basis = union of the stored automata of every element")):
        f = ctx.repo.need_method("PinWords", name)
        ctx.run(check_fold, ctx, f, what)


_OLD_RUN_W6 = run


def run(ctx: Ctx) -> None:  # noqa: F811
    _OLD_RUN_W6(ctx)
    ctx.run(rule_w6, ctx)


FLOORS["C16-W6"] = 3
