"""C20 – persisted and shipped data: write/read protocol, automaton DB protocol,
shipped partition (data validation in the thorough tier)."""

from __future__ import annotations

import ast
import json
import math
from typing import Dict, List, Optional, Set, Tuple

from ..core import AnalysisError, FuncInfo, Repo, attr_chain, call_name, const_value, deviates, is_const, unparse, walk_no_nested
from ..purity import Purity
from ..report import Ctx
from ..skelrules import check_skeleton

PROP = "C20"
FLOORS = {"C20-W1": 2, "C20-W2": 2, "C20-W3": 2, "C20-W4": 1, "C20-D1": 6}

EXPLANATION = (
    "Decided at protocol level: (a) after any sequence of writes a read returns the document last written – every whole-document writer opens its file "
    "truncating (W1), writer and reader agree on framing (one line <-> readline, W2) and on file naming (W3); (b) a missing or malformed file is "
    "reported (W4: the reader's handler reports, it does not silently substitute data); (c) the automaton database is keyed consistently by the "
    "permutation, written through a truncating open or skipped when present, defaults to the fresh computation, is read back by eval in a module that "
    "imports the class named by the repr, and the three DFA builders are one fold (D1); (d) thorough tier only: the shipped JSON data sets are, per "
    "property name, a partition of all permutations of each length up to their stated length (R1, validation of data files). NOT decided: that the "
    "shipped partition is 'by the property they are named after' (needs running the predicates) and the repr/eval round trip of the automata library."
)

WHOLE_DOC_WRITES = {("json", "dumps"), ("json", "dump"), ("repr",), ("pickle", "dump"), ("pickle", "dumps"), ("str",)}


class OpenSite:
    def __init__(self, fi: FuncInfo, call: ast.Call, with_node: Optional[ast.With], handle: Optional[str]):
        self.fi = fi
        self.call = call
        self.with_node = with_node
        self.handle = handle
        self.mode = self._mode()

    def _mode(self) -> Optional[str]:
        node = None
        if len(self.call.args) >= 2:
            node = self.call.args[1]
        for kw in self.call.keywords:
            if kw.arg == "mode":
                node = kw.value
        if node is None:
            return "r"
        try:
            v = const_value(node)
        except ValueError:
            return None
        return v if isinstance(v, str) else None


def open_sites(repo: Repo) -> List[OpenSite]:
    out = []
    for fi in repo.all_funcs():
        for node in walk_no_nested(fi.node):
            if isinstance(node, ast.With):
                for item in node.items:
                    c = item.context_expr
                    if isinstance(c, ast.Call) and call_name(c) in (("open",), ("io", "open")):
                        h = item.optional_vars.id if isinstance(item.optional_vars, ast.Name) else None
                        out.append(OpenSite(fi, c, node, h))
        seen = {id(s.call) for s in out}
        for node in walk_no_nested(fi.node):
            if isinstance(node, ast.Call) and call_name(node) in (("open",), ("io", "open")) and id(node) not in seen:
                out.append(OpenSite(fi, node, None, None))
    return out


def writes_through(site: OpenSite) -> List[Tuple[ast.Call, str, ast.AST]]:
    """(call, kind, payload) for whole-document writes through the handle of this site."""
    res = []
    if site.with_node is None or site.handle is None:
        return res
    for node in ast.walk(site.with_node):
        if isinstance(node, ast.Call):
            cn = call_name(node)
            if cn == (site.handle, "write") and node.args:
                payload = node.args[0]
                kind = "raw"
                if isinstance(payload, ast.Call):
                    pcn = call_name(payload)
                    if pcn == ("json", "dumps"):
                        kind = "json"
                    elif pcn in (("repr",), ("str",)):
                        kind = "repr"
                    elif pcn == ("pickle", "dumps"):
                        kind = "pickle"
                res.append((node, kind, payload))
            elif cn in (("json", "dump"), ("pickle", "dump")) and len(node.args) >= 2 and isinstance(node.args[1], ast.Name) and node.args[1].id == site.handle:
                res.append((node, "json" if cn[0] == "json" else "pickle", node))
            elif cn == (site.handle, "writelines"):
                res.append((node, "raw", node))
    return res


def reads_through(site: OpenSite) -> List[Tuple[ast.Call, str]]:
    res = []
    if site.with_node is None or site.handle is None:
        return res
    for node in ast.walk(site.with_node):
        if isinstance(node, ast.Call):
            cn = call_name(node)
            if cn and cn[0] == site.handle and cn[-1] in ("readline", "read", "readlines"):
                res.append((node, cn[-1]))
            elif cn in (("json", "load"), ("pickle", "load")) and node.args and isinstance(node.args[0], ast.Name) and node.args[0].id == site.handle:
                res.append((node, "read"))
    return res


def run(ctx: Ctx) -> None:
    sites = open_sites(ctx.repo)
    ctx.run(rule_w1, ctx, sites)
    ctx.run(rule_w2, ctx, sites)
    ctx.run(rule_w3, ctx)
    ctx.run(rule_w4, ctx, sites)
    ctx.run(rule_d1, ctx, sites)
    ctx.assume("repr/eval round trip of automata-lib's DFA is trusted (external library)")


def rule_w1(ctx: Ctx, sites: List[OpenSite]) -> None:
    n = 0
    for s in sites:
        ws = writes_through(s)
        if not ws:
            continue
        n += 1
        if s.mode is None:
            raise AnalysisError(f"{s.fi.where}: non-constant open() mode for a writer")
        m = s.mode
        if ("w" in m or "x" in m) and "a" not in m:
            ctx.ok("C20-W1", s.fi.where, f"whole-document writer ({ws[0][1]}) opens with mode {m!r}: truncating/exclusive", s.call, s.fi)
        elif "a" in m:
            ctx.violation("C20-W1", s.fi, s.with_node, f"a whole document ({ws[0][1]}) is written through a handle opened with mode {m!r}: a second write appends to the first and the reader no longer sees the last document")
        elif "+" in m and "r" in m:
            ctx.violation("C20-W1", s.fi, s.with_node, f"a whole document is written through mode {m!r} without truncation: a shorter document leaves the tail of the previous one")
        else:
            ctx.violation("C20-W1", s.fi, s.with_node, f"writer opens its file with mode {m!r}")
    if n == 0:
        raise AnalysisError("no whole-document writer found")


def rule_w2(ctx: Ctx, sites: List[OpenSite]) -> None:
    repo = ctx.repo
    writers = [(s, w) for s in sites for w in writes_through(s)]
    readers = [(s, r) for s in sites for r in reads_through(s)]
    for s, (node, kind) in readers:
        if kind != "readline":
            ctx.ok("C20-W2", s.fi.where, f"reader uses {kind}(): no framing restriction", node, s.fi)
            continue
        # which format does the reader decode?
        fmt = reader_format(repo, s, node)
        peers = [(ws, w) for ws, w in writers if w[1] == fmt]
        if not peers:
            raise AnalysisError(f"{s.fi.where}: no writer found for the {fmt} reader")
        for ws, (wnode, wkind, payload) in peers:
            if wkind == "json":
                call = payload if isinstance(payload, ast.Call) else wnode
                bad = [kw for kw in call.keywords if kw.arg == "indent" and not is_const(kw.value, None)]
                if bad:
                    ctx.violation("C20-W2", ws.fi, wnode, f"the JSON document is written over several lines (indent={unparse(bad[0].value)}) but {s.fi.qual} reads a single line")
                else:
                    ctx.ok("C20-W2", ws.fi.where, f"json.dumps without indent emits one line; {s.fi.qual} reads one line", wnode, ws.fi)
            elif wkind == "repr":
                ctx.ok("C20-W2", ws.fi.where, f"repr() of the automaton is one line; {s.fi.qual} evaluates one line", wnode, ws.fi)
            # extra writes through the same handle break one-document framing
            extra = [w for w in writes_through(ws) if w[0] is not wnode]
            if extra:
                ctx.violation("C20-W2", ws.fi, extra[0][0], "more than one write per open: the file holds more than one document/line")
        if fmt == "repr":
            # eval needs the class named by the repr in the module's globals
            needs = "DFA"
            if needs in s.fi.module.imports or needs in s.fi.module.classes:
                ctx.ok("C20-W2", s.fi.where, f"eval() runs in a module that imports {needs}", node, s.fi)
            else:
                ctx.violation("C20-W2", s.fi, node, f"eval() of a stored repr needs `{needs}` in the module namespace, but it is not imported")
    # JSON decoding is the inverse of the encoding of {int: [Perm]}
    fj = repo.modules["permuta.bisc.bisc"].functions.get("from_json") if "permuta.bisc.bisc" in repo.modules else None
    if fj is not None:
        ctx.run(check_skeleton, ctx, "C20-W2", fj, [
            "obj = json.loads(a0)\nreturn {int(k): list(map(Perm, v)) for k, v in obj.items()}",
            "obj = json.loads(a0)\nreturn {int(k): [Perm(x) for x in v] for k, v in obj.items()}",
        ], "from_json inverts the JSON encoding of {length: [permutations]}")


def reader_format(repo: Repo, s: OpenSite, node: ast.Call) -> str:
    parent = None
    for n in ast.walk(s.fi.node):
        for c in ast.iter_child_nodes(n):
            if c is node:
                parent = n
    # climb through .strip()
    cur = parent
    hops = 0
    while cur is not None and hops < 4:
        if isinstance(cur, ast.Call):
            cn = call_name(cur)
            if cn == ("eval",):
                return "repr"
            if cn in (("json", "loads"),):
                return "json"
            if cn and len(cn) == 1:
                r = repo.resolve_name(s.fi.module, cn[0])
                if isinstance(r, FuncInfo):
                    for sub in walk_no_nested(r.node):
                        if isinstance(sub, ast.Call) and call_name(sub) == ("json", "loads"):
                            return "json"
        nxt = None
        for n in ast.walk(s.fi.node):
            for c in ast.iter_child_nodes(n):
                if c is cur:
                    nxt = n
        cur = nxt
        hops += 1
    raise AnalysisError(f"{s.fi.where}: cannot tell how the line read is decoded")


def fstring_suffix(node: ast.AST) -> Optional[str]:
    if isinstance(node, ast.JoinedStr) and node.values and isinstance(node.values[-1], ast.Constant):
        return str(node.values[-1].value)
    if isinstance(node, ast.Constant) and isinstance(node.value, str):
        return node.value
    if isinstance(node, ast.BinOp) and isinstance(node.op, ast.Add):
        return fstring_suffix(node.right)
    return None


def rule_w3(ctx: Ctx) -> None:
    repo = ctx.repo
    bisc = repo.module("permuta.bisc.bisc")
    wb = bisc.functions.get("write_bisc_files")
    rb = bisc.functions.get("read_bisc_file")
    if wb is None or rb is None:
        raise AnalysisError("write_bisc_files / read_bisc_file vanished")
    names = []
    for node in walk_no_nested(wb.node):
        if isinstance(node, ast.Call) and call_name(node) == ("write_json_to_file",) and len(node.args) == 2:
            names.append((node, node.args[1], unparse(node.args[0])))
    if len(names) != 2:
        raise AnalysisError(f"{wb.where}: expected two data files to be written")
    opens = [n for n in walk_no_nested(rb.node) if isinstance(n, ast.Call) and call_name(n) == ("open",)]
    if not opens:
        # pathlib spelling: Path(p).with_suffix(S).open(..) / open(Path(p).with_suffix(S)) REPLACES an existing suffix, the writer APPENDS one
        ws = [n for n in walk_no_nested(rb.node) if isinstance(n, ast.Call) and isinstance(n.func, ast.Attribute) and n.func.attr == "with_suffix" and len(n.args) == 1
              and isinstance(n.args[0], ast.Constant) and isinstance(n.args[0].value, str)]
        appended = [a for _n, a, _w in names if fstring_suffix(a) is not None and isinstance(a, (ast.JoinedStr, ast.BinOp))]
        if len(ws) == 1 and len(appended) == len(names):
            ctx.violation("C20-W3", rb, ws[0], f"read_bisc_file opens `{unparse(ws[0])}`, which replaces whatever follows the last dot of the given name, while write_bisc_files appends "
                          f"{fstring_suffix(appended[0])!r} to it: for a name containing a dot the reader looks for a file the writer never wrote", robust=True)
            return
    if len(opens) != 1:
        raise AnalysisError(f"{rb.where}: open() not found")
    rsuffix = fstring_suffix(opens[0].args[0])
    kinds = set()
    from ..core import flow_env as _flow_env, subst_names as _subst

    # every request to write reaches both writes: nothing before them can leave the function
    pending = {id(n) for n, _a, _w in names}
    for st in wb.body:
        if not pending:
            break
        direct = isinstance(st, ast.Expr) and id(st.value) in pending
        if direct:
            pending.discard(id(st.value))
            continue
        inner = [n for n in ast.walk(st) if id(n) in pending]
        if inner:
            if isinstance(st, ast.If) and any(isinstance(x, ast.Call) and call_name(x) and call_name(x)[-1] in ("isfile", "exists", "is_file") for x in ast.walk(st.test)):
                ctx.violation("C20-W5", wb, st, f"the data files are written only when `{unparse(st.test)[:70]}`: when files of that name are already there the data of this request is dropped "
                              "and a later read returns what an earlier request wrote", robust=True)
                return
            raise AnalysisError(f"{wb.where}: a data file is written conditionally (inside `{unparse(st).splitlines()[0][:60]}`); not decided")
        leaves = [x for x in walk_no_nested(st) if isinstance(x, (ast.Return, ast.Raise))] if not isinstance(st, (ast.FunctionDef,)) else []
        if leaves:
            ctx.violation("C20-W5", wb, st, f"write_bisc_files can return before writing (`{unparse(st).splitlines()[0][:70]}` ...): the data of this request is dropped and a later read returns what an earlier request wrote", robust=True)
            return
    ctx.ok("C20-W5", wb.where, "both data files are written on every path through write_bisc_files (no exit before the two writes)", wb.node, wb)
    for node, name, what in names:
        name = _subst(name, _flow_env(wb, node))
        suf = fstring_suffix(name)
        if suf is None or rsuffix is None:
            raise AnalysisError("file name expressions not recognised")
        if not suf.endswith(rsuffix):
            ctx.violation("C20-W3", wb, node, f"data is written to a name ending in {suf!r} but read_bisc_file opens path + {rsuffix!r}")
            continue
        txt = unparse(name)
        tag = "good" if "_good_" in txt else "bad" if "_bad_" in txt else "?"
        kinds.add((tag, what))
        ctx.ok("C20-W3", wb.where, f"{what} -> '<info>_{tag}_len<n>{rsuffix}'; reader appends {rsuffix!r}", node, wb)
    gb = [st for st in wb.body if isinstance(st, ast.Assign) and isinstance(st.targets[0], ast.Tuple)]
    if gb:
        order = [unparse(e) for e in gb[0].targets[0].elts]
        for tag, what in kinds:
            if tag in ("good", "bad") and what in order and order.index(what) != (0 if tag == "good" else 1):
                ctx.violation("C20-W3", wb, gb[0], f"`{what}` (position {order.index(what)} of create_bisc_input's result) is written to the *_{tag}_* file")
    # automaton DB: store and load build the same path
    pw = repo.cls("PinWords")
    st_, ld = pw.methods.get("store_dfa_for_perm"), pw.methods.get("load_dfa_for_perm")
    if st_ is None or ld is None:
        raise AnalysisError("store_dfa_for_perm / load_dfa_for_perm vanished")

    from ..core import inlined_text

    def opened_path(fi: FuncInfo) -> str:
        opens = [n for n in walk_no_nested(fi.node) if isinstance(n, ast.Call) and call_name(n) == ("open",) and n.args]
        if len(opens) != 1:
            raise AnalysisError(f"{fi.where}: expected one open()")
        import re as _re

        txt = inlined_text(fi, opens[0].args[0])
        # comprehension variables are bound names, not locals: normalise them
        txt = _re.sub(r"str\((\w+)\) for \1 in", "str(_) for _ in", txt)
        return _re.sub(rf"\b{fi.params[1]}\b", "$perm", txt)

    a, b = opened_path(st_), opened_path(ld)

    def same_helper_path(x: str, y: str) -> bool:
        """both are calls of one path helper with the same positional arguments; keyword flags that differ do not enter
        the helper's returned value"""
        try:
            cx, cy = ast.parse(x.replace("$perm", "PERM_"), mode="eval").body, ast.parse(y.replace("$perm", "PERM_"), mode="eval").body
        except SyntaxError:
            return False
        while isinstance(cx, ast.Call) and isinstance(cy, ast.Call) and unparse(cx.func) == unparse(cy.func) == "str" and len(cx.args) == len(cy.args) == 1:
            cx, cy = cx.args[0], cy.args[0]
        if not (isinstance(cx, ast.Call) and isinstance(cy, ast.Call) and unparse(cx.func) == unparse(cy.func) and [unparse(q) for q in cx.args] == [unparse(q) for q in cy.args]):
            return False
        cn = call_name(cx)
        h = repo.method("PinWords", cn[-1]) if cn else None
        if h is None:
            return False
        kx = {k.arg: unparse(k.value) for k in cx.keywords}
        ky = {k.arg: unparse(k.value) for k in cy.keywords}
        differing = {k for k in set(kx) | set(ky) if kx.get(k) != ky.get(k)}
        rets_h = [n for n in walk_no_nested(h.node) if isinstance(n, ast.Return) and n.value is not None]
        if not rets_h:
            return False
        from ..core import flow_env, subst_names

        for r in rets_h:
            used = {n.id for n in ast.walk(subst_names(r.value, flow_env(h, r))) if isinstance(n, ast.Name)}
            if used & differing:
                return False
        return True

    if a == b:
        ctx.ok("C20-W3", ld.where, f"store and load open the same path expression: {a}", ld.node, ld)
    elif same_helper_path(a, b):
        ctx.ok("C20-W3", ld.where, f"store and load obtain the path from the same helper with the same permutation: {b}", ld.node, ld)
    else:
        from ..skelrules import edit_distance, spec_from_src

        try:
            d = edit_distance(spec_from_src("return " + a.replace("$perm", "a0")), spec_from_src("return " + b.replace("$perm", "a0")), 1)
        except Exception:  # pylint: disable=broad-except
            d = None
        if d == 1:
            ctx.violation("C20-W3", ld, ld.node, f"store opens `{a}` but load opens `{b}`: an automaton stored for a permutation is not the one loaded for it")
        else:
            raise AnalysisError(f"{ld.where}: store opens `{a[:80]}`, load opens `{b[:80]}`; whether these are the same file is not decided")
    if "len($perm)" in a:
        ctx.ok("C20-W3", st_.where, "directory carries the length, file name the entries", st_.node, st_)


def rule_w4(ctx: Ctx, sites: List[OpenSite]) -> None:
    n = 0
    for s in sites:
        if not reads_through(s) or s.with_node is None:
            continue
        # enclosing try
        tr = None
        for node in walk_no_nested(s.fi.node):
            if isinstance(node, ast.Try) and any(sub is s.with_node for sub in ast.walk(node)):
                tr = node
        if tr is None:
            ctx.ok("C20-W4", s.fi.where, "no handler: a missing/malformed file propagates as an exception", s.with_node, s.fi)
            n += 1
            continue
        for h in tr.handlers:
            n += 1
            REPORTERS = ("print", "warning", "error", "warn", "exception", "info")
            reports = any(isinstance(x, ast.Raise) for x in ast.walk(h)) or any(isinstance(x, ast.Call) and call_name(x) and call_name(x)[-1] in REPORTERS for x in ast.walk(h))
            helper_calls = []
            if not reports:
                # the handler may delegate to a helper that reports
                for x in ast.walk(h):
                    if isinstance(x, ast.Call):
                        cands, exact = ctx.repo.resolve_call(s.fi, x)
                        helper_calls.extend(cands)
                        for c in cands:
                            if any(isinstance(y, ast.Raise) or (isinstance(y, ast.Call) and call_name(y) and call_name(y)[-1] in REPORTERS) for y in ast.walk(c.node)):
                                reports = True
            if reports:
                ctx.ok("C20-W4", s.fi.where, f"handler for {unparse(h.type) if h.type else 'all exceptions'} reports the problem", h, s.fi)
            elif any(isinstance(x, ast.Call) for x in ast.walk(h)) and not helper_calls:
                raise AnalysisError(f"{s.fi.where}: the handler calls `{unparse(h.body[0])[:50]}`, which could not be resolved; whether the problem is reported is not decided")
            else:
                ctx.violation("C20-W4", s.fi, h, "a missing or malformed data file is swallowed silently and other data is returned")
    if n == 0:
        raise AnalysisError("no reader found")


def rule_d1(ctx: Ctx, sites: List[OpenSite]) -> None:
    repo = ctx.repo
    pw = repo.cls("PinWords")
    store = repo.need_method("PinWords", "store_dfa_for_perm")
    load = repo.need_method("PinWords", "load_dfa_for_perm")
    perm, in_dfa = store.params[1], store.params[2]
    # what is written
    ssites = [s for s in sites if s.fi is store and writes_through(s)]
    if len(ssites) != 1:
        raise AnalysisError(f"{store.where}: expected one writer")
    w = writes_through(ssites[0])[0]
    if not (w[1] == "repr" and unparse(w[2]) == f"repr({in_dfa})"):
        ctx.violation("C20-D1", store, w[0], f"the database entry is `{unparse(w[2])[:60]}`, not repr of the automaton")
    else:
        ctx.ok("C20-D1", store.where, f"entry = repr({in_dfa})", w[0], store)
    # default
    ifs = [st for st in walk_no_nested(store.node) if isinstance(st, ast.If)]
    dflt = [st for st in ifs if unparse(st.test) == f"{in_dfa} is None"]
    fresh = (f"{in_dfa} = cls.make_dfa_for_perm({perm})", f"{in_dfa} = PinWords.make_dfa_for_perm({perm})")
    if len(dflt) == 1 and len(dflt[0].body) == 1 and not dflt[0].orelse and unparse(dflt[0].body[0]) in fresh:
        ctx.ok("C20-D1", store.where, "defaults to the fresh computation make_dfa_for_perm(perm)", dflt[0], store)
    elif len(dflt) == 1 and len(dflt[0].body) == 1:
        deviates(ctx, "C20-D1", store, dflt[0], unparse(dflt[0].body[0]), fresh, f"when no automaton is supplied the entry is not make_dfa_for_perm({perm})", k=5)
    elif not dflt and not any(in_dfa in unparse(st.test) for st in ifs) and f"{in_dfa} if " not in unparse(store.node) and f"{in_dfa} or " not in unparse(store.node):
        ctx.violation("C20-D1", store, store.node, f"when no automaton is supplied (`{in_dfa}` is None) nothing is computed: the entry is not make_dfa_for_perm({perm})", robust=True)
    else:
        raise AnalysisError(f"{store.where}: how a missing `{in_dfa}` argument is defaulted is not recognised")
    # skip-or-truncate: the canonical spelling of `if X.is_file(): return; REST` is `if not X.is_file(): REST` (sa/canon.py)
    for sk in [st for st in ifs if "is_file()" in unparse(st.test)]:
        t = unparse(sk.test)
        inside = any(n is w[0] for b in sk.body for n in ast.walk(b))
        if t.startswith("not ") and t.endswith(".is_file()") and " and " not in t and " or " not in t and not sk.orelse and inside:
            continue
        raise AnalysisError(f"{store.where}: what happens to an existing entry (`if {t[:50]}:`) is not recognised")
    # the entry is complete before the file exists: opening for writing creates/truncates the file, and an existing file is never
    # rewritten (guard above), so a computation that can fail or be interrupted must not run between the open and the write
    wn = ssites[0].with_node
    for call in [n for b in wn.body for n in ast.walk(b) if isinstance(n, ast.Call)]:
        cands, _exact = ctx.repo.resolve_call(store, call)
        exact_here = [c for c in cands if call_name(call) and call_name(call)[0] in ("cls", "self", "PinWords")]
        if exact_here:
            ctx.violation("C20-D1", store, call, f"`{unparse(call)[:60]}` runs after the database file was opened for writing: if it fails or is interrupted an empty entry is left behind, "
                          "and because existing entries are never rewritten every later load of this permutation fails", robust=True)
            return
    ctx.ok("C20-D1", store.where, "an existing entry is kept or rewritten through a truncating open (W1): the file stays a function of the permutation", store.node, store)
    # load: store on absence then read
    first_if = [st for st in load.body if isinstance(st, ast.If)]
    lperm = load.params[1]
    ok = len(first_if) == 1 and "is_file()" in unparse(first_if[0].test) and unparse(first_if[0].test).startswith("not ") and len(first_if[0].body) == 1 and unparse(first_if[0].body[0]) in (f"cls.store_dfa_for_perm({lperm})", f"PinWords.store_dfa_for_perm({lperm})")
    if ok:
        ctx.ok("C20-D1", load.where, "absent entry -> store the fresh computation, then read", first_if[0], load)
    else:
        ctx.violation("C20-D1", load, first_if[0] if first_if else load.node, "load does not create a missing entry from the fresh computation for the same permutation")
    lsites = [s for s in sites if s.fi is load and reads_through(s)]
    if len(lsites) != 1 or lsites[0].mode not in ("r", "rt"):
        raise AnalysisError(f"{load.where}: reader not recognised")
    rets = [n for n in walk_no_nested(load.node) if isinstance(n, ast.Return)]
    evals = [n for n in walk_no_nested(load.node) if isinstance(n, ast.Assign) and isinstance(n.value, ast.Call) and call_name(n.value) == ("eval",)]
    direct = [r for r in rets if isinstance(r.value, ast.Call) and call_name(r.value) == ("eval",)]
    if len(rets) == 1 and len(evals) == 1 and unparse(rets[0].value) == unparse(evals[0].targets[0]):
        ctx.ok("C20-D1", load.where, "returns the evaluated entry", rets[0], load)
    elif len(rets) == 1 and len(direct) == 1 and not evals:
        ctx.ok("C20-D1", load.where, "returns the evaluated entry", rets[0], load)
    elif not evals and not direct:
        ctx.violation("C20-D1", load, rets[0] if rets else load.node, "load does not return the automaton evaluated from the file")
    else:
        raise AnalysisError(f"{load.where}: how the evaluated entry is returned is not recognised")
    # memo keyed by the permutation only
    if any("lru_cache" in d for d in load.decorators):
        if len(load.params) == 2:
            ctx.ok("C20-D1", load.where, "memoised on (cls, perm): the file content is a function of perm when in_dfa is defaulted (I/O dependence accepted for this reason)", load.node, load)
        else:
            raise AnalysisError(f"{load.where}: memoised on extra parameters")
    # three builders, one fold
    for name, src_kind in (("make_dfa_for_perm", "pinwords"), ("make_dfa_for_basis_from_pinwords", "pinwords"), ("make_dfa_for_basis_from_db", "db")):
        f = repo.need_method("PinWords", name)
        ctx.run(check_builder, ctx, f, src_kind)
    mk = repo.need_method("PinWords", "make_dfa_for_basis")
    ctx.run(check_skeleton, ctx, "C20-D1", mk, ["if a1:\n    return cls.make_dfa_for_basis_from_db(a0)\nreturn cls.make_dfa_for_basis_from_pinwords(a0)"], "use_db selects the database builder, otherwise the pin-word builder, same basis")


def check_builder(ctx: Ctx, f: FuncInfo, src_kind: str) -> None:
    arg = f.params[1]
    init = [st for st in f.body if isinstance(st, (ast.Assign, ast.AnnAssign)) and st.value is not None and isinstance(st.value, ast.Call) and call_name(st.value) == ("DFA", "empty_language")]
    loops = [st for st in f.body if isinstance(st, ast.For)]
    rets = [st for st in f.body if isinstance(st, ast.Return)]
    if len(init) != 1 or len(loops) != 1 or len(rets) != 1:
        raise AnalysisError(f"{f.where}: fold shape not recognised")
    acc = unparse(init[0].target if isinstance(init[0], ast.AnnAssign) else init[0].targets[0])
    if unparse(init[0].value.args[0]) != "frozenset(DIRS)":
        ctx.violation("C20-D1", f, init[0], f"fold starts from the empty language over {unparse(init[0].value.args[0])}, not over the direction alphabet")
        return
    env = {unparse(st.targets[0]): st.value for st in f.body if isinstance(st, ast.Assign)}
    it = loops[0].iter
    it_src = env.get(unparse(it), it)
    if isinstance(it, ast.Name) and not (isinstance(it_src, ast.Call) and call_name(it_src) == ("sorted",)):
        # bound unsorted, then sorted in place before the loop:  x = <source>; x.sort(); for item in x
        sorts = [st for st in f.body[: f.body.index(loops[0])] if isinstance(st, ast.Expr) and isinstance(st.value, ast.Call) and isinstance(st.value.func, ast.Attribute)
                 and st.value.func.attr == "sort" and isinstance(st.value.func.value, ast.Name) and st.value.func.value.id == it.id and not st.value.args and not st.value.keywords]
        binds = [st for st in f.body if isinstance(st, ast.Assign) and len(st.targets) == 1 and isinstance(st.targets[0], ast.Name) and st.targets[0].id == it.id]
        if len(sorts) == 1 and len(binds) == 1 and f.body.index(binds[0]) < f.body.index(sorts[0]):
            it_src = ast.Call(func=ast.Name(id="sorted", ctx=ast.Load()), args=[binds[0].value], keywords=[])
    if not (isinstance(it_src, ast.Call) and call_name(it_src) == ("sorted",)):
        # positively unsorted: the argument itself, or a plain container copy of it
        raw = it_src.args[0] if isinstance(it_src, ast.Call) and call_name(it_src) in (("list",), ("tuple",), ("set",), ("frozenset",)) and it_src.args else it_src
        if isinstance(raw, ast.Name) and raw.id == arg or unparse(raw) in (f"cls.pinwords_for_basis(({arg},))", f"cls.pinwords_for_basis({arg})"):
            ctx.violation("C20-D1", f, loops[0], "items are not folded in sorted order: the automaton (and its stored repr) would depend on the order of the input", robust=True)
            return
        raise AnalysisError(f"{f.where}: whether the items are folded in sorted order (`{unparse(it_src)[:60]}`) is not recognised")
    inner = it_src.args[0]
    inner_src = env.get(unparse(inner), inner)
    want_src = {"pinwords": (f"cls.pinwords_for_basis(({arg},))", f"cls.pinwords_for_basis({arg})"), "db": (arg,)}[src_kind]
    if unparse(inner_src) not in want_src:
        ctx.violation("C20-D1", f, loops[0], f"fold runs over `{unparse(inner_src)}`; expected {want_src}")
        return
    var = unparse(loops[0].target)
    per_item = {"pinwords": f"cls.make_dfa_for_pinword({var})", "db": f"cls.load_dfa_for_perm({var})"}[src_kind]
    body_env = {unparse(st.targets[0]): unparse(st.value) for st in loops[0].body if isinstance(st, ast.Assign)}
    upd = body_env.get(acc)
    if upd is None:
        ctx.violation("C20-D1", f, loops[0], "the accumulator is not updated in the loop")
        return
    for k, v in body_env.items():
        if k != acc:
            upd = upd.replace(k, v)
    if upd != f"{acc}.union({per_item})":
        ctx.violation("C20-D1", f, loops[0], f"per-item step is `{upd}`; expected `{acc}.union({per_item})`")
        return
    if unparse(rets[0].value) != acc:
        ctx.violation("C20-D1", f, rets[0], "the fold result is not returned")
        return
    ctx.ok("C20-D1", f.where, f"fold: union over sorted items of {per_item}, from the empty language", loops[0], f)


# ------------------------------------------------------------------ thorough: shipped data


def sweep(ctx: Ctx):
    """C20-R1: every <name>_good_len<n>.json / <name>_bad_len<n>.json pair partitions S_0..S_n."""
    import re

    root = ctx.repo.root / "permuta" / "resources" / "bisc"
    if not root.is_dir():
        # scratch copies do not carry the resources
        return {"shipped_pairs_validated": 0, "shipped_note": "resources directory not present"}
    files = {p.name: p for p in root.glob("*.json")}
    pairs = {}
    for name in files:
        m = re.fullmatch(r"(.+)_(good|bad)_len(\d+)\.json", name)
        if m:
            pairs.setdefault((m.group(1), int(m.group(3))), {})[m.group(2)] = files[name]
    validated, skipped, problems = 0, [], []
    for (name, n), d in sorted(pairs.items()):
        if set(d) != {"good", "bad"}:
            problems.append(f"{name}_len{n}: missing {'bad' if 'good' in d else 'good'} twin")
            continue
        if d["good"].stat().st_size == 0 or d["bad"].stat().st_size == 0:
            skipped.append(f"{name}_len{n} (zero-byte file in this image)")
            continue
        try:
            texts = {k: d[k].read_text() for k in d}
            if any(t.count("\n") > 1 or (t.count("\n") == 1 and not t.endswith("\n")) for t in texts.values()):
                problems.append(f"{name}_len{n}: more than one line (the reader takes one line)")
                continue
            good, bad = json.loads(texts["good"]), json.loads(texts["bad"])
        except ValueError as exc:
            problems.append(f"{name}_len{n}: not one JSON document ({exc})")
            continue
        for k in range(n + 1):
            g, b = good.get(str(k)), bad.get(str(k))
            if g is None or b is None:
                problems.append(f"{name}_len{n}: key {k} missing")
                break
            gs, bs = {tuple(x) for x in g}, {tuple(x) for x in b}
            if len(gs) != len(g) or len(bs) != len(b):
                problems.append(f"{name}_len{n}: duplicates at length {k}")
                break
            if gs & bs:
                problems.append(f"{name}_len{n}: good and bad overlap at length {k}")
                break
            if any(sorted(p) != list(range(k)) for p in gs | bs):
                problems.append(f"{name}_len{n}: an entry at length {k} is not a permutation of that length")
                break
            if len(gs) + len(bs) != math.factorial(k):
                problems.append(f"{name}_len{n}: |good|+|bad| = {len(gs) + len(bs)} != {k}! at length {k}")
                break
        else:
            if set(good) != {str(k) for k in range(n + 1)} or set(bad) != {str(k) for k in range(n + 1)}:
                problems.append(f"{name}_len{n}: keys are not exactly 0..{n}")
            else:
                validated += 1
                ctx.ok("C20-R1", f"permuta/resources/bisc/{name}_*_len{n}.json", f"good/bad partition S_0..S_{n} (every length: disjoint, duplicate free, k! in total)")
    for pr in problems:
        ctx.violation("C20-R1", f"permuta/resources/bisc:{pr.split(':')[0]}", None, f"shipped data set {pr}", file="permuta/resources/bisc", robust=True)
    if validated < 10 and not problems:
        raise AnalysisError(f"only {validated} shipped data pairs could be validated (floor 10)")
    return {"shipped_pairs_validated": validated, "shipped_pairs_skipped": skipped}


GENERIC_FILES = ['permuta/bisc/bisc.py', 'permuta/permutils/pin_words.py', 'permuta/bisc/perm_properties.py']


def _add_lru(fname: str):
    def edit(tree: ast.Module) -> None:
        tree.body.insert(0, ast.parse("import functools").body[0])
        for n in ast.walk(tree):
            if isinstance(n, ast.FunctionDef) and n.name == fname:
                n.decorator_list.append(ast.parse("functools.lru_cache(maxsize=None)", mode="eval").body)
                return
        from ..selftest import Skip

        raise Skip(fname)

    return edit


def _drop_lru(fname: str):
    def edit(tree: ast.Module) -> None:
        for n in ast.walk(tree):
            if isinstance(n, ast.FunctionDef) and n.name == fname:
                n.decorator_list = [d for d in n.decorator_list if "cache" not in ast.unparse(d)]
                return

    return edit


def variants():
    from ..selftest import generic_equiv, generic_silent

    return _variants() + generic_silent(GENERIC_FILES) + generic_equiv(GENERIC_FILES)


def _variants():
    from ..selftest import V, custom, insert_stmt, reformat_only, rename_local, replace_expr, replace_stmt

    BI, PW = "permuta/bisc/bisc.py", "permuta/permutils/pin_words.py"
    return [
        V("write-once-guard", insert_stmt("permuta/bisc/bisc.py", "write_bisc_files", "good, bad = create_bisc_input(n, prop)", "if os.path.isfile(f'{info}_good_len{n}.json') and os.path.isfile(f'{info}_bad_len{n}.json'):\n    return", "before"), "fire", "C20-W5"),
        V("file-names-in-locals", [insert_stmt("permuta/bisc/bisc.py", "write_bisc_files", "good, bad = create_bisc_input(n, prop)", "good_file, bad_file = f'{info}_good_len{n}.json', f'{info}_bad_len{n}.json'", "before"),
                                   replace_expr("permuta/bisc/bisc.py", "write_bisc_files", "write_json_to_file(good, f'{info}_good_len{n}.json')", "write_json_to_file(good, good_file)"),
                                   replace_expr("permuta/bisc/bisc.py", "write_bisc_files", "write_json_to_file(bad, f'{info}_bad_len{n}.json')", "write_json_to_file(bad, bad_file)")], "silent"),
        V("json-writer-append", replace_expr(BI, "write_json_to_file", "open(file_name, 'w')", "open(file_name, 'a+')"), "fire", "C20-W1", "the original defect"),
        V("json-writer-rplus", replace_expr(BI, "write_json_to_file", "open(file_name, 'w')", "open(file_name, 'r+')"), "fire", "C20-W1"),
        V("dfa-writer-append", replace_expr(PW, "PinWords.store_dfa_for_perm", "open(str(path), 'w')", "open(str(path), 'a')"), "fire", "C20-W1"),
        V("json-indent", replace_expr(BI, "write_json_to_file", "json.dumps(json_obj)", "json.dumps(json_obj, indent=1)"), "fire", "C20-W2"),
        V("json-two-writes", insert_stmt(BI, "write_json_to_file", "f.write(json.dumps(json_obj))", "f.write('\\n')", "before"), "fire", "C20-W2"),
        V("from-json-keys-not-int", replace_expr(BI, "from_json", "int(key)", "key"), "fire-or-undecided", "C20-W2"),
        V("reader-other-suffix", replace_expr(BI, "read_bisc_file", "open(f'{path}.json', 'r')", "open(f'{path}.txt', 'r')"), "fire", "C20-W3"),
        V("good-bad-swapped", [replace_expr(BI, "write_bisc_files", "write_json_to_file(good, f'{info}_good_len{n}.json')", "write_json_to_file(bad, f'{info}_good_len{n}.json')"),
                               replace_expr(BI, "write_bisc_files", "write_json_to_file(bad, f'{info}_bad_len{n}.json')", "write_json_to_file(good, f'{info}_bad_len{n}.json')")], "fire", "C20-W3"),
        V("load-other-filename", replace_expr(PW, "PinWords.load_dfa_for_perm", "''.join((str(i) for i in perm))", "''.join((str(i) for i in perm.inverse()))"), "fire", "C20-W3"),
        V("reader-swallows", replace_stmt(BI, "read_bisc_file", "print(f'File is invalid: {path}')", "pass"), "fire", "C20-W4"),
        V("store-str-not-repr", replace_expr(PW, "PinWords.store_dfa_for_perm", "repr(in_dfa)", "str(in_dfa.states)"), "fire", "C20-D1"),
        V("store-default-other-perm", replace_expr(PW, "PinWords.store_dfa_for_perm", "cls.make_dfa_for_perm(perm)", "cls.make_dfa_for_perm(perm.reverse())"), "fire", "C20-D1"),
        V("store-computes-after-open", replace_expr(PW, "PinWords.store_dfa_for_perm", "repr(in_dfa)", "repr(in_dfa if in_dfa is not None else cls.make_dfa_for_perm(perm))"), "fire-or-undecided", "C20-D1"),
        V("shipped-property-pattern-changed", replace_expr("permuta/bisc/perm_properties.py", None, "[(1, 6), (4, 5), (4, 6)]", "[(0, 6), (4, 5), (4, 6)]"), "fire", "C20-P1"),
        V("shipped-property-cells-reordered", replace_expr("permuta/bisc/perm_properties.py", None, "[(1, 6), (4, 5), (4, 6)]", "[(4, 6), (1, 6), (4, 5)]"), "silent"),
        V("load-stores-other", replace_expr(PW, "PinWords.load_dfa_for_perm", "cls.store_dfa_for_perm(perm)", "cls.store_dfa_for_perm(perm.inverse())"), "fire", "C20-D1"),
        V("db-builder-unsorted", replace_expr(PW, "PinWords.make_dfa_for_basis_from_db", "sorted(basis)", "basis"), "fire", "C20-D1"),
        V("db-builder-intersection", replace_expr(PW, "PinWords.make_dfa_for_basis_from_db", "out_dfa.union(out_dfa2)", "out_dfa.intersection(out_dfa2)"), "fire", "C20-D1"),
        V("perm-builder-other-alphabet", replace_expr(PW, "PinWords.make_dfa_for_perm", "frozenset(DIRS)", "frozenset(QUADS)"), "fire", "C20-D1"),
        V("use-db-inverted", replace_expr(PW, "PinWords.make_dfa_for_basis", "use_db", "not use_db"), "fire", "C20-D1"),
        V("eval-without-import", replace_stmt(PW, None, "from automata.fa.dfa import DFA", "import automata.fa.dfa"), "fire", "C20-W2"),
        # silent
        V("reformat-bisc", reformat_only(BI), "silent"),
        V("store-without-early-return", replace_stmt(PW, "PinWords.store_dfa_for_perm", "if path.is_file(): ...", ""), "silent", note="write-once is not required: a truncating rewrite keeps the entry a function of the permutation, and an earlier (memoised) load is language-equivalent to a later one"),
        V("bisc-reader-memoised", custom(BI, _add_lru("read_bisc_file")), "fire", "C20-M1"),
        V("writer-wt-mode", replace_expr(BI, "write_json_to_file", "open(file_name, 'w')", "open(file_name, mode='wt')"), "silent"),
        V("reader-default-mode", replace_expr(BI, "read_bisc_file", "open(f'{path}.json', 'r')", "open(f'{path}.json')"), "silent"),
        V("rename-handle", rename_local(BI, "write_json_to_file", "f", "handle"), "silent"),
    ]


# ------------------------------------------------------------------ M1: memoised readers


def rule_m1(ctx: Ctx, sites: List[OpenSite]) -> None:
    """A function that reads a file may be memoised only if the file can never change once it exists
    (every writer of that file skips when it is present); otherwise a read after a later write returns
    the earlier contents."""
    repo = ctx.repo
    n = 0
    for s in sites:
        if not reads_through(s):
            continue
        n += 1
        # memo on the reading function itself or on a function it is (exactly) called from inside the package
        memo = [d for d in s.fi.decorators if "cache" in d.lower() or "memo" in d.lower()]
        if not memo:
            ctx.ok("C20-M1", s.fi.where, "reader is not memoised: every read goes to the file", s.call, s.fi)
            continue
        # the writers of the same path expression
        peers = [w for w in sites if writes_through(w) and w.fi.module is s.fi.module and w.fi.cls is s.fi.cls]
        write_once = bool(peers) and all(_skips_when_present(w) for w in peers)
        keyed = all(kind == "repr" for w in peers for (_c, kind, _p) in writes_through(w)) and bool(peers)
        if keyed and not write_once:
            # contract of the automaton database: an entry is (language-equivalent to) a function of its key, so an
            # earlier load is as good as a later one (C20-D1 checks the default and the keying)
            ctx.ok("C20-M1", s.fi.where, f"memoised reader ({memo[0]}) of a keyed database whose entries are a function of the key: an earlier load is equivalent to a later one", s.call, s.fi)
            continue
        if write_once:
            ctx.ok("C20-M1", s.fi.where, f"memoised reader ({memo[0]}), but its writer never changes an existing file (write-once): the memo cannot go stale", s.call, s.fi)
        elif not peers:
            raise AnalysisError(f"{s.fi.where}: memoised reader ({memo[0]}) but the writer of its file was not recognised; whether the file can change is not decided")
        else:
            ctx.violation("C20-M1", s.fi, s.fi.node, f"{s.fi.qual} is memoised ({memo[0]}) although the file it reads can be rewritten: after a later write (or a first read that found the file missing) it keeps returning the earlier result", robust=True)
    if n == 0:
        raise AnalysisError("no reader found")


def _skips_when_present(w: OpenSite) -> bool:
    """`if <path>.is_file(): return` (or os.path.exists) dominates the open() of the writer."""
    fi = w.fi
    if w.with_node not in fi.body:
        return False
    pos = fi.body.index(w.with_node)
    for st in fi.body[:pos]:
        if isinstance(st, ast.If) and len(st.body) == 1 and isinstance(st.body[0], ast.Return) and st.body[0].value is None and not st.orelse:
            t = unparse(st.test)
            if t.endswith(".is_file()") or t.endswith(".exists()") or t.startswith("os.path.exists(") or t.startswith("os.path.isfile("):
                return True
    return False


_OLD_RUN = run


def run(ctx: Ctx) -> None:  # noqa: F811
    _OLD_RUN(ctx)
    ctx.run(rule_m1, ctx, open_sites(ctx.repo))


FLOORS["C20-M1"] = 2
FLOORS["C20-W5"] = 1


# ------------------------------------------------------------------------------ P1: the shipped data sets are filed under the documented property
#
# The files under resources/bisc are named after functions of bisc/perm_properties.py and hold the partition of all
# permutations of one length by that function.  For the two properties defined by pattern avoidance the function's docstring
# states the patterns; the patterns the function really tests must be those (stated belief vs. use): if they differ, either the
# documentation or the partition shipped under that name is wrong.  Values are compared (permutation, set of shaded cells), not
# text.


def _literal(node: ast.AST):
    return ast.literal_eval(ast.fix_missing_locations(ast.Expression(body=node)))


def _pattern_value(node: ast.AST):
    """('perm', entries) / ('mesh', entries, frozenset(cells)) of a literal Perm((..)) / MeshPatt(Perm((..)), [cells]); None otherwise"""
    if isinstance(node, ast.Call) and call_name(node) == ("Perm",) and len(node.args) == 1:
        try:
            return ("perm", tuple(_literal(node.args[0])))
        except (ValueError, TypeError, SyntaxError):
            return None
    if isinstance(node, ast.Call) and call_name(node) == ("MeshPatt",) and len(node.args) == 2:
        inner = _pattern_value(node.args[0])
        try:
            cells = frozenset(tuple(c) for c in _literal(node.args[1]))
        except (ValueError, TypeError, SyntaxError):
            return None
        return ("mesh", inner[1], cells) if inner else None
    return None


def rule_p1(ctx: Ctx) -> None:
    import re

    mod = ctx.repo.module("permuta.bisc.perm_properties")
    n = 0
    for name, fi in sorted(mod.functions.items()):
        doc = ast.get_docstring(fi.node) or ""
        stated = []
        for m in re.finditer(r"MeshPatt\(Perm\(\([0-9, ]*\)\), \[[0-9(), ]*\]\)", doc):
            try:
                v = _pattern_value(ast.parse(m.group(0), mode="eval").body)
            except SyntaxError:
                v = None
            if v:
                stated.append(v)
        if not stated:
            continue
        rets = [st for st in fi.body if isinstance(st, ast.Return)]
        if len(rets) != 1 or not (isinstance(rets[0].value, ast.Call) and call_name(rets[0].value) and call_name(rets[0].value)[-1] == "avoids"):
            raise AnalysisError(f"{fi.where}: documented as a pattern-avoidance property but not of the form `return perm.avoids(..)`")
        used = []
        for a in rets[0].value.args:
            a = a.value if isinstance(a, ast.Starred) else a
            if isinstance(a, ast.Name) and a.id in mod.assigns:
                a = mod.assigns[a.id]
            for e in (a.elts if isinstance(a, (ast.Tuple, ast.List)) else [a]):
                v = _pattern_value(e)
                if v is None:
                    raise AnalysisError(f"{fi.where}: tested pattern `{unparse(e)[:60]}` is not a literal")
                used.append(v)
        n += 1
        used_mesh = {v for v in used if v[0] == "mesh"}
        missing = [v for v in stated if v not in used_mesh]
        extra = [v for v in used_mesh if v not in stated]
        if missing or extra:
            show = lambda v: f"MeshPatt(Perm({v[1]}), {sorted(v[2])})"  # noqa: E731
            ctx.violation("C20-P1", fi, rets[0], f"{name} is documented (and its shipped data set was filed) as avoiding {', '.join(show(v) for v in stated)}, but it tests "
                          f"{', '.join(show(v) for v in sorted(used_mesh, key=str))}: the data files shipped under this name are no longer the partition by this function", robust=True)
        else:
            ctx.ok("C20-P1", fi.where, f"{name}: the mesh patterns tested are the documented ones ({len(stated)})", rets[0], fi)
    if n == 0:
        raise AnalysisError("C20-P1: no documented pattern-avoidance property found in bisc/perm_properties.py")


_RUN_BEFORE_P1 = run


def run(ctx: Ctx) -> None:  # noqa: F811
    _RUN_BEFORE_P1(ctx)
    ctx.run(rule_p1, ctx)


FLOORS["C20-P1"] = 2

EXPLANATION = EXPLANATION + (" Added while building: (P1) for the shipped-data properties documented as pattern avoidance, the mesh patterns the function tests are the documented ones "
                             "(values compared; this is the statically visible part of 'the shipped partition is by the property it is named after'); (D1) nothing of the repository runs "
                             "between opening a database entry for writing and the write, since existing entries are never rewritten.")
