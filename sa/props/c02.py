"""C02 – Av(basis): history independence and single source of truth."""

from __future__ import annotations

import ast
from typing import Dict, List, Optional, Set, Tuple

from ..core import AnalysisError, FuncInfo, Repo, attr_chain, call_name, is_const, unparse, walk_no_nested
from ..lockflow import ELEM, FIELD, FRESH, GROWTH, VAL, SharedModel
from ..report import Ctx
from ..skelrules import check_skeleton
from .c07 import rule_p1_p2

PROP = "C02"
FLOORS = {"C02-P1": 2, "C02-P2": 3, "C02-P3": 1, "C02-P4": 3, "C02-P5": 1, "C02-S1": 8}

EXPLANATION = (
    "Decided (the 'histories' half of the quantifier): answers do not depend on iterators still being consumed (P1 published levels keep their key "
    "set; P2 the level list is monotone and compaction is a key-preserving copy), on other classes created in the same process (P3 per-instance state "
    "is fresh; P4 the identity map is touched only by construction/clear_cache and the level cache is written only below the ensure step), on the "
    "instance cache having been cleared (P4/P5 lookup-or-insert is complete and influences identity only); membership, count, enumeration, "
    "up_to_length, first, is_subclass are fixed aggregates of the level set and every query reaches the level through the ensure step (S1). "
    "NOT decided: that a level built by rightmost insertion with a window of max basis length equals the set of avoiders, that compaction leaves "
    "exactly the last two levels expandable, nor (beyond the finding reported) the arithmetic of `_all`."
)


def run(ctx: Ctx) -> None:
    model = SharedModel(ctx.repo, "Av")
    ctx.run(rule_p1_p2, ctx, model, "C02-P1", "C02-P2")
    ctx.run(rule_p3, ctx, model)
    ctx.run(rule_p4, ctx, model)
    ctx.run(rule_p5, ctx, model)
    ctx.run(rule_s1, ctx, model)
    ctx.assume("a dict iterator is invalidated only by a change of the key set (values may be replaced/mutated)")


def rule_p3(ctx: Ctx, m: SharedModel) -> None:
    """Mutable fields are initialised with fresh objects at the instance-creating call."""
    repo = ctx.repo
    base_fields: List[str] = []
    for base in repo.mro("Av"):
        if "NamedTuple" in base.base_names:
            for st in base.node.body:
                if isinstance(st, ast.AnnAssign) and isinstance(st.target, ast.Name):
                    base_fields.append(st.target.id)
                    if st.value is not None and st.target.id in m.fields:
                        ctx.violation("C02-P3", base.where, st, f"mutable field {st.target.id} has a default value shared by every instance", file=base.module.relpath, robust=True)
    calls = []
    for fi in m.funcs:
        for node in walk_no_nested(fi.node):
            if isinstance(node, ast.Call):
                cn = call_name(node)
                if cn and cn[-1] == "__new__" and cn[0] in ("AvBase", "super()", "tuple"):
                    calls.append((fi, node))
    if not calls:
        raise AnalysisError("no instance-creating call (AvBase.__new__) found in Av")
    for fi, call in calls:
        args = call.args[1:] if call_name(call)[0] != "super()" or True else call.args
        for idx, fld in enumerate(base_fields):
            if fld not in m.fields:
                continue
            arg = None
            if idx < len(args):
                arg = args[idx]
            for kw in call.keywords:
                if kw.arg == fld:
                    arg = kw.value
            if arg is None:
                raise AnalysisError(f"{fi.where}: cannot find the argument initialising {fld}")
            fr = fresh_expr(fi, arg, repo)
            if fr is True:
                ctx.ok("C02-P3", fi.where, f"field {fld} initialised with a fresh object `{unparse(arg)}` at the creating call", call, fi)
            elif fr is False:
                ctx.violation("C02-P3", fi, call, f"field {fld} is initialised from `{unparse(arg)}`, which is not created at the call: level caches of different classes would share state", robust=True)
            else:
                raise AnalysisError(f"{fi.where}: whether `{unparse(arg)[:50]}` (initial value of {fld}) is a fresh object is not decided")


def fresh_expr(fi: FuncInfo, arg: ast.AST, repo=None, depth: int = 0):
    """True: a new object is created at this point; False: a reference to state that outlives the call (class / module
    attribute, parameter, default value); None: unknown."""
    if isinstance(arg, (ast.List, ast.Dict, ast.Set, ast.ListComp, ast.DictComp, ast.SetComp)):
        return True
    if isinstance(arg, ast.Call):
        cn = call_name(arg)
        if cn in (("list",), ("dict",), ("set",)):
            return True
        if cn and cn[-1] in ("copy", "deepcopy"):
            return True
        # a helper whose every return is a fresh object
        if repo is not None and depth < 2:
            cands, exact = repo.resolve_call(fi, arg)
            if exact and len(cands) == 1:
                h = cands[0]
                rets = [n for n in walk_no_nested(h.node) if isinstance(n, ast.Return) and n.value is not None]
                if rets and all(fresh_expr(h, r.value, repo, depth + 1) is True for r in rets) and not any("cache" in d for d in h.decorators):
                    return True
        return None
    if isinstance(arg, ast.Name):
        if arg.id in fi.params:
            return False
        # a local bound (once) to a fresh display inside this function
        vals = [n.value for n in walk_no_nested(fi.node) if isinstance(n, ast.Assign) and len(n.targets) == 1 and isinstance(n.targets[0], ast.Name) and n.targets[0].id == arg.id]
        if len(vals) == 1:
            return fresh_expr(fi, vals[0], repo, depth)
        return None
    if isinstance(arg, ast.Attribute):
        ch = attr_chain(arg)
        if ch and ch[0] in ("cls", "self", "Av", "AvBase"):
            return False  # state that outlives the call
        return None
    return None


QUERY_EXEMPT = {"__new__", "clear_cache"}


def _holds_only_locks(m: SharedModel, cc: str) -> bool:
    stores = []
    for fi in m.repo.all_funcs():
        for node in walk_no_nested(fi.node):
            if isinstance(node, ast.Assign):
                for t in node.targets:
                    if isinstance(t, ast.Subscript) and isinstance(t.value, ast.Attribute) and t.value.attr == cc:
                        stores.append(node.value)
            if isinstance(node, ast.Call) and isinstance(node.func, ast.Attribute) and node.func.attr == "setdefault" and isinstance(node.func.value, ast.Attribute) and node.func.value.attr == cc and len(node.args) == 2:
                stores.append(node.args[1])
    init = m.cls.assigns.get(cc)
    if isinstance(init, ast.Call) and call_name(init) and call_name(init)[-1] == "defaultdict" and init.args:
        fac = init.args[0]
        if unparse(fac).split(".")[-1] in ("Lock", "RLock"):
            return not stores or all(m.is_lock_expr(v) is False for v in stores)
    return bool(stores) and all(m.is_lock_expr(v) is False for v in stores)


def rule_p4(ctx: Ctx, m: SharedModel) -> None:
    repo = ctx.repo
    # identity map accesses
    for cc in m.class_containers:
        if _holds_only_locks(m, cc):
            ctx.note(f"Av.{cc} only ever receives lock objects: not an instance map (judged by C07)")
            continue
        for fi in repo.all_funcs():
            for node in walk_no_nested(fi.node):
                if isinstance(node, ast.Attribute) and node.attr == cc:
                    ch = attr_chain(node)
                    if not ch or ch[0] not in ("Av", "cls", "self"):
                        continue
                    if ch[0] in ("cls", "self") and (fi.cls is None or fi.cls.name != "Av"):
                        continue
                    if fi.cls is not None and fi.cls.name == "Av" and fi.name in QUERY_EXEMPT:
                        ctx.ok("C02-P4", fi.where, f"{cc} accessed in {fi.name}", m.stmt_of(fi, node), fi)
                    elif fi.cls is not None and fi.cls.name == "Av":
                        ctx.violation("C02-P4", fi, m.stmt_of(fi, node), f"{fi.name} touches the instance map {cc}: answers would depend on which classes exist or on clear_cache()", robust=True)
                    else:
                        ctx.note(f"{fi.where} accesses Av.{cc} from outside the class")
    # writers of the level cache are reachable only from the ensure step (= lock-held set)
    writers = sorted({s.fi.where for s in m.sites if s.kind in (FIELD, ELEM, VAL)})
    for w in writers:
        fi = repo.funcs[w]
        entry = [c.where for c, _n, _l in m.callers.get(w, [])]
        public = fi.parent is None and not fi.name.startswith("_")
        if public:
            ctx.violation("C02-P4", fi, fi.node, f"public method {fi.name} writes the level cache directly", robust=True)
        elif not entry and fi.parent is None:
            raise AnalysisError(f"{fi.where}: writes the level cache but no direct call of it was found (dynamic dispatch?); whether it is reached only through the ensure step is not decided")
        else:
            ctx.ok("C02-P4", w, f"level-cache writer reached only via {sorted(set(e.split(':')[-1] for e in entry))}", fi.node, fi)


def rule_p5(ctx: Ctx, m: SharedModel) -> None:
    """Lookup-or-insert on the instance map, whatever the idiom (get + `is None`, try/except KeyError, `in` test):
    one key expression for every lookup and for the store, the stored object is the one created for that key and
    the one returned on a miss, the looked-up object is returned on a hit."""
    new = ctx.repo.need_method("Av", "__new__")
    cc = m.class_containers
    if not cc:
        ctx.ok("C02-P5", new.where, "no instance map: every construction yields a fresh, private instance")
        return

    def is_map(e: ast.AST) -> bool:
        ch = attr_chain(e)
        return bool(ch) and ch[-1] in cc and len(ch) == 2 and ch[0] in ("Av", "cls")

    lookups, stores, creations, returns = [], [], [], []
    got_var = {}
    for node in walk_no_nested(new.node):
        if isinstance(node, ast.Call) and isinstance(node.func, ast.Attribute) and node.func.attr == "get" and is_map(node.func.value) and node.args:
            lookups.append(("get", unparse(node.args[0]), node))
        if isinstance(node, ast.Subscript) and isinstance(node.ctx, ast.Load) and is_map(node.value):
            lookups.append(("item", unparse(node.slice), node))
        if isinstance(node, ast.Compare) and len(node.ops) == 1 and isinstance(node.ops[0], (ast.In, ast.NotIn)) and is_map(node.comparators[0]):
            lookups.append(("in", unparse(node.left), node))
        if isinstance(node, ast.NamedExpr) and isinstance(node.value, ast.Call) and isinstance(node.value.func, ast.Attribute) and node.value.func.attr == "get" and is_map(node.value.func.value):
            got_var[node.target.id] = node
        if isinstance(node, (ast.Assign, ast.AnnAssign)) and node.value is not None:
            tgts = node.targets if isinstance(node, ast.Assign) else [node.target]
            names_here = [t.id for t in tgts if isinstance(t, ast.Name)]
            is_creation = isinstance(node.value, ast.Call) and call_name(node.value) and call_name(node.value)[-1] == "__new__"
            for tgt in tgts:
                if isinstance(tgt, ast.Subscript) and is_map(tgt.value):
                    # `x = M[k] = <new>`: the stored value is the created object, known under the sibling name
                    sval = names_here[0] if (is_creation and names_here) else unparse(node.value)
                    stores.append((unparse(tgt.slice), sval, node))
                if isinstance(tgt, ast.Name) and is_creation:
                    creations.append((tgt.id, node))
                if isinstance(tgt, ast.Name) and isinstance(node.value, ast.Call) and isinstance(node.value.func, ast.Attribute) and node.value.func.attr == "get" and is_map(node.value.func.value):
                    got_var[tgt.id] = node
        if isinstance(node, ast.Return) and node.value is not None:
            returns.append(node)
    # nothing but clear_cache ever removes an entry: an evicted class would be rebuilt as a second object for an equal basis
    for fi2 in m.funcs:
        if fi2.name == "clear_cache":
            continue
        for node in walk_no_nested(fi2.node):
            removed = None
            if isinstance(node, ast.Delete):
                for t in node.targets:
                    if isinstance(t, ast.Subscript) and is_map(t.value):
                        removed = node
            if isinstance(node, ast.Call) and isinstance(node.func, ast.Attribute) and node.func.attr in ("pop", "popitem", "clear") and is_map(node.func.value):
                removed = node
            if removed is not None:
                ctx.violation("C02-P5", fi2, m.stmt_of(fi2, removed), f"{fi2.name} removes an entry of the instance map: a class object that is still in use can be evicted, after which an equal basis denotes a second, distinct object (with its own level cache)", robust=True)
                return
    if not lookups:
        raise AnalysisError(f"{new.where}: identity-map lookup not recognised")
    keys = {k for _kind, k, _n in lookups}
    if len(keys) != 1:
        ctx.violation("C02-P5", new, lookups[0][2], f"the instance map is consulted under different keys {sorted(keys)}", robust=True)
        return
    key = keys.pop()
    if not stores:
        ctx.violation("C02-P5", new, lookups[0][2], "on a miss the new instance is not stored in the instance map: equal bases would denote different class objects", robust=True)
        return
    if len(stores) != 1 or len(creations) != 1:
        raise AnalysisError(f"{new.where}: miss path not recognised ({len(stores)} stores, {len(creations)} creations)")
    skey, sval, snode = stores[0]
    cvar, cnode = creations[0]
    if skey != key:
        ctx.violation("C02-P5", new, snode, f"instance stored under key `{skey}` but looked up under `{key}`", robust=True)
        return
    ret_txt = [unparse(r.value) for r in returns]
    if sval != cvar or cvar not in ret_txt:
        ctx.violation("C02-P5", new, snode, f"miss path stores `{sval}` and returns {ret_txt}; both must be the new instance `{cvar}`", robust=True)
        return
    call = cnode.value
    made_for = unparse(call.args[1]) if len(call.args) > 1 else next((unparse(k.value) for k in call.keywords if k.arg == "basis"), None)
    if made_for is None:
        raise AnalysisError(f"{new.where}: the basis the new instance is created for is not recognised")
    if made_for != key:
        ctx.violation("C02-P5", new, cnode, f"new instance is created for `{made_for}` but registered under `{key}`", robust=True)
        return
    # hit path: the looked-up object itself is returned
    hit = [t for t in ret_txt if t in got_var or any(t == unparse(n) for kind, _k, n in lookups if kind == "item")]
    if not hit:
        ctx.violation("C02-P5", new, returns[0] if returns else new.node, "hit path does not return the cached instance", robust=True)
        return
    # the hit return must not be reachable on a miss: accepted guards
    guarded = False
    for r in returns:
        t = unparse(r.value)
        if t in got_var:
            v = t
            # `if v is None: <miss, ends in return>` before, or `if v is not None: return v`
            for st in walk_no_nested(new.node):
                if isinstance(st, ast.If) and unparse(st.test) in (f"{v} is None", f"not {v}") and st.body and isinstance(st.body[-1], ast.Return) and not any(sub is r for sub in ast.walk(st)):
                    guarded = True
                if isinstance(st, ast.If) and unparse(st.test) in (f"{v} is not None", v) and any(sub is r for sub in st.body):
                    guarded = True
                if isinstance(st, ast.If) and isinstance(st.test, ast.Compare) and isinstance(st.test.left, ast.NamedExpr) and st.test.left.target.id == v and len(st.test.ops) == 1 \
                        and isinstance(st.test.ops[0], ast.IsNot) and is_const(st.test.comparators[0], None) and any(sub is r for sub in st.body):
                    guarded = True
        elif any(t == unparse(n) for kind, _k, n in lookups if kind == "item"):
            for st in walk_no_nested(new.node):
                if isinstance(st, ast.Try) and any(sub is r for b in st.body for sub in ast.walk(b)) and any(h.type is not None and unparse(h.type) in ("KeyError", "LookupError") for h in st.handlers):
                    guarded = True
                if isinstance(st, ast.If) and unparse(st.test) == f"{key} in {unparse(snode.targets[0].value) if isinstance(snode, ast.Assign) else ''}" and any(sub is r for sub in st.body):
                    guarded = True
    if not guarded:
        raise AnalysisError(f"{new.where}: the guard separating hit and miss is not recognised")
    ctx.ok("C02-P5", new.where, f"lookup `{key}` -> miss: create, store under the same key, return; hit: return the cached object", lookups[0][2], new)


S1 = [
    ("count", ["return len(self._get_level(a0))"], "count(n) = |level(n)|"),
    ("of_length", ["return iter(self._get_level(a0))", "yield from self._get_level(a0)"], "of_length(n) = iter(level(n))"),
    ("__contains__", ["if isinstance(a0, Perm):\n    return a0 in self._get_level(len(a0))\nreturn False",
                      "return isinstance(a0, Perm) and a0 in self._get_level(len(a0))"], "x in C = isinstance(x, Perm) and x in level(len(x))"),
    ("enumeration", ["return [self.count(i) for i in range(a0 + 1)]"], "enumeration(n) = [count(i) for i in 0..n]"),
    ("up_to_length", ["for n in range(a0 + 1):\n    yield from self.of_length(n)"], "up_to_length(n) = concat(of_length(i) for i in 0..n)"),
    ("first", ["yield from islice(self._all(), a0)", "return islice(self._all(), a0)"], "first(k) = islice(_all(), k)"),
    ("is_subclass", ["return all(p not in self for p in a0.basis)"], "is_subclass(o) = Forall p in o.basis: p not in self"),
]


def rule_s1(ctx: Ctx, m: SharedModel) -> None:
    repo = ctx.repo
    for name, specs, what in S1:
        fi = repo.need_method("Av", name)
        ctx.run(check_skeleton, ctx, "C02-S1", fi, specs, what)
    ctx.run(check_all, ctx, repo.need_method("Av", "_all"))
    # no query method reads the level cache directly
    # the ensure family, defined by the call graph alone (no reference to the lock, which is C07's subject): the writers of
    # the level cache, their private callers (_ensure_level, _get_level), and helpers called only from inside the family
    ensure_family = {s.fi.where for s in m.sites if s.kind in (FIELD, ELEM, VAL)}
    changed = True
    while changed:
        changed = False
        for fi in m.funcs:
            if fi.where in ensure_family:
                continue
            callers = [c for c, _n, _l in m.callers.get(fi.where, [])]
            calls_family = any(fi is c for w in ensure_family for c, _n, _l in m.callers.get(w, []))
            private = fi.parent is None and fi.name.startswith("_") and not fi.name.startswith("__")
            if (private and calls_family) or (fi.parent is not None and fi.parent.where in ensure_family) or (callers and all(c.where in ensure_family for c in callers)):
                ensure_family.add(fi.where)
                changed = True
    for fi in m.funcs:
        if fi.where in ensure_family:
            continue
        self_n = m._self_name(fi)
        for node in walk_no_nested(fi.node):
            ch = attr_chain(node)
            if isinstance(node, ast.Attribute) and ch and len(ch) == 2 and ch[0] == self_n and ch[1] in m.fields:
                ctx.violation("C02-S1", fi, m.stmt_of(fi, node), f"{fi.name} reads the level cache directly instead of going through the ensure step: the answer depends on which lengths were requested before")
    # _get_level = ensure then index with the same level number
    gl = repo.need_method("Av", "_get_level")
    rets = [n for n in walk_no_nested(gl.node) if isinstance(n, ast.Return) and n.value is not None]
    ok = len(rets) == 1 and isinstance(rets[0].value, ast.Subscript) and unparse(rets[0].value.slice) == gl.params[1]
    calls = [n for n in walk_no_nested(gl.node) if isinstance(n, ast.Call) and call_name(n) and call_name(n)[-1] == "_ensure_level" and len(n.args) == 1 and unparse(n.args[0]) == gl.params[1]]
    if ok and calls:
        ctx.ok("C02-S1", gl.where, "level(n) = ensure(n); cache[n]", rets[0], gl)
    elif calls and len(rets) == 1 and isinstance(rets[0].value, ast.Subscript) and attr_chain(rets[0].value.value) == (gl.params[0], m.fields[0]):
        ctx.violation("C02-S1", gl, rets[0], f"level {gl.params[1]} is ensured but cache[{unparse(rets[0].value.slice)}] is returned")
    else:
        raise AnalysisError(f"{gl.where}: shape 'ensure(n) then cache[n]' not recognised")


def check_all(ctx: Ctx, fi: FuncInfo) -> None:
    """``_all`` yields of_length(0), of_length(1), ... in ascending order; an early exit at the first
    empty level is a theorem only for classical bases (classes closed under containment).
    Recognised round shapes: `yield from <level>`; `for p in <level>: yield p` (possibly with a flag); the peek form
    `g = iter(level); first = next(g, None); if first is None: break; yield first; yield from g`.
    Counter: `length = 0; while True: ...; length += 1` or `for length in itertools.count()`."""
    body = fi.body
    counter = loop = None
    if len(body) == 2 and isinstance(body[0], ast.Assign) and is_const(body[0].value) and isinstance(body[1], ast.While) and is_const(body[1].test, True):
        if not is_const(body[0].value, 0):
            ctx.violation("C02-S1", fi, body[0], f"enumeration of all members starts at length {unparse(body[0].value)}, not 0")
            return
        counter = body[0].targets[0].id
        loop = body[1]
        incs = [st for st in loop.body if isinstance(st, ast.AugAssign) and isinstance(st.target, ast.Name) and st.target.id == counter]
        if not (len(incs) == 1 and isinstance(incs[0].op, ast.Add) and is_const(incs[0].value, 1) and loop.body[-1] is incs[0]):
            if len(incs) == 1 and loop.body[-1] is incs[0] and isinstance(incs[0].op, ast.Add) and isinstance(incs[0].value, ast.Constant):
                ctx.violation("C02-S1", fi, incs[0], "lengths are not visited as 0, 1, 2, ... (counter must advance by exactly one at the end of each round)")
                return
            raise AnalysisError(f"{fi.where}: the way the length counter advances is not recognised")
        round_body = [st for st in loop.body if st is not incs[0]]
    elif len(body) == 1 and isinstance(body[0], ast.For) and unparse(body[0].iter) in ("itertools.count()", "count()", "itertools.count(0)", "count(0)") and isinstance(body[0].target, ast.Name):
        loop = body[0]
        counter = loop.target.id
        round_body = list(loop.body)
    else:
        raise AnalysisError(f"{fi.where}: shape `length = 0; while True:` / `for length in count():` not recognised")
    # the level source
    srcs = [n for n in ast.walk(loop) if isinstance(n, ast.Call) and call_name(n) and call_name(n)[-1] in ("of_length", "_get_level")]
    if len(srcs) != 1:
        raise AnalysisError(f"{fi.where}: the level visited in a round is not recognised")
    if not (len(srcs[0].args) == 1 and call_name(srcs[0])[0] == fi.params[0]):
        raise AnalysisError(f"{fi.where}: the level visited in a round is not recognised")
    if unparse(srcs[0].args[0]) != counter:
        ctx.violation("C02-S1", fi, loop, f"round `{counter}` enumerates `{unparse(srcs[0])}`, not self.of_length({counter})")
        return
    ctx.ok("C02-S1", fi.where, f"_all visits of_length({counter}) for {counter} = 0, 1, 2, ...", loop, fi)
    # every element of the visited level is yielded
    gens = {unparse(st.targets[0]): st for st in round_body if isinstance(st, ast.Assign) and any(sub is srcs[0] for sub in ast.walk(st.value))}
    yields = [st for st in round_body if isinstance(st, ast.Expr) and isinstance(st.value, (ast.Yield, ast.YieldFrom))]
    peeks = {}
    for st in round_body:
        if isinstance(st, (ast.Assign, ast.AnnAssign)) and st.value is not None and isinstance(st.value, ast.Call) and call_name(st.value) == ("next",) and len(st.value.args) == 2:
            tgt = st.target if isinstance(st, ast.AnnAssign) else st.targets[0]
            peeks[unparse(tgt)] = unparse(st.value.args[0])
    direct = any(isinstance(y.value, ast.YieldFrom) and any(sub is srcs[0] for sub in ast.walk(y.value)) for y in yields)
    loops_over = [st for st in round_body if isinstance(st, ast.For) and (any(sub is srcs[0] for sub in ast.walk(st.iter)) or unparse(st.iter) in gens)]
    looped = False
    flag_reset: Dict[str, str] = {}
    if len(loops_over) == 1 and isinstance(loops_over[0].target, ast.Name):
        lo = loops_over[0]
        ys = [st for st in lo.body if isinstance(st, ast.Expr) and isinstance(st.value, ast.Yield) and st.value.value is not None and unparse(st.value.value) == lo.target.id]
        others = [st for st in lo.body if st not in ys]
        if len(ys) == 1 and all(isinstance(o, ast.Assign) and isinstance(o.value, ast.Constant) for o in others) and not lo.orelse:
            looped = True
            for o in others:
                flag_reset[unparse(o.targets[0])] = unparse(o.value)
        elif not ys:
            ctx.violation("C02-S1", fi, lo, f"the loop over of_length({counter}) does not yield its elements")
            return
    ytxt = [("from " if isinstance(y.value, ast.YieldFrom) else "") + (unparse(y.value.value) if y.value.value is not None else "") for y in yields]
    peeked = False
    for first, g in peeks.items():
        if g in gens:
            if ytxt == [first, f"from {g}"]:
                peeked = True
                guard_pos = [i for i, st in enumerate(round_body) if isinstance(st, ast.If) and unparse(st.test) in (f"{first} is None", f"not {first}")
                             and st.body and isinstance(st.body[-1], (ast.Break, ast.Return, ast.Continue))]
                ypos = round_body.index(yields[0])
                if not guard_pos or guard_pos[0] > ypos:
                    ctx.violation("C02-S1", fi, yields[0], f"the peeked element `{first}` is yielded without testing the exhaustion sentinel first: None is reported as a member for an empty level")
                    return
            elif set(ytxt) < {first, f"from {g}"}:
                ctx.violation("C02-S1", fi, loop, f"the round peeks the first element of of_length({counter}) but does not yield both it and the rest (yields: {ytxt})")
                return
    if direct or peeked or looped:
        ctx.ok("C02-S1", fi.where, "every element of the visited level is yielded, in the level's order", (yields or loops_over)[0], fi)
    else:
        raise AnalysisError(f"{fi.where}: how a round yields the elements of of_length({counter}) is not recognised (yields: {ytxt})")
    # early exits
    breaks = [n for n in ast.walk(loop) if isinstance(n, (ast.Break, ast.Return)) and not any(n in ast.walk(lo) for lo in loops_over)]
    for br in breaks:
        guard = None
        for n in ast.walk(loop):
            if isinstance(n, ast.If) and any(sub is br for sub in ast.walk(n)):
                guard = n
        dominated = False
        for n in ast.walk(fi.node):
            if isinstance(n, ast.If) and "isinstance(self.basis, Basis)" in unparse(n.test) and any(sub is br for sub in ast.walk(n)):
                dominated = True
        if guard is not None and "isinstance(self.basis, Basis)" in unparse(guard.test):
            dominated = True
        if dominated:
            ctx.ok("C02-S1", fi.where, "early exit at an empty level only for classical bases (downward closed classes)", guard or br, fi)
        else:
            ctx.violation("C02-S1", fi, guard if guard is not None else br,
                          "enumeration stops at the first empty level for every kind of basis; for mesh bases (classes not closed under containment) later levels may be non-empty, so first()/_all silently omit members", tag="early-exit-for-every-kind-of-basis")


# ------------------------------------------------------------------ thorough tier


GENERIC_FILES = ['permuta/perm_sets/permset.py', 'permuta/perm_sets/basis.py']


def variants():
    from ..selftest import generic_equiv, generic_silent

    return _variants() + generic_silent(GENERIC_FILES) + generic_equiv(GENERIC_FILES)


def _variants():
    from ..selftest import V, insert_stmt, reformat_only, rename_local, replace_expr, replace_stmt

    PS = "permuta/perm_sets/permset.py"
    return [
        V("compaction-empties-level", replace_expr(PS, "Av._ensure_level", "{perm: None for perm in self.cache[i]}", "{}"), "fire", "C02-P2"),
        V("compaction-filters", replace_expr(PS, "Av._ensure_level", "{perm: None for perm in self.cache[i]}", "{perm: None for perm in self.cache[i] if perm}"), "fire", "C02-P2"),
        V("compaction-wrong-level", replace_expr(PS, "Av._ensure_level", "{perm: None for perm in self.cache[i]}", "{perm: None for perm in self.cache[i - 1]}"), "fire", "C02-P2"),
        V("compaction-del-level", replace_stmt(PS, "Av._ensure_level", "self.cache[i] = {perm: None for perm in self.cache[i]}", "del self.cache[i]"), "fire", "C02-P2"),
        V("last-level-pop", insert_stmt(PS, "Av._ensure_level_classical_pattern_basis", "check_length = nplusone in lengths", "last_level.pop(Perm(), None)", "after"), "fire", "C02-P1"),
        V("hoisted-initial-cache", [insert_stmt(PS, "Av", "_CACHE_LOCK = multiprocessing.Lock()", "_INITIAL = [{Perm(): [0]}]", "after"),
                                    replace_expr(PS, "Av.__new__", "[{Perm(): [0]}]", "Av._INITIAL")], "fire", "C02-P3"),
        V("count-reads-class-cache", replace_stmt(PS, "Av.count", "return len(self._get_level(length))", "return len(self._get_level(length)) if self.basis in Av._CLASS_CACHE else 0"), "fire", "C02-P4"),
        V("public-writer", insert_stmt(PS, "Av.count", "return len(self._get_level(length))", "self.cache.append({})", "before"), "fire", "C02-P4"),
        V("miss-not-stored", replace_stmt(PS, "Av.__new__", "Av._CLASS_CACHE[basis] = new_instance", ""), "fire", "C02-P5"),
        V("miss-stored-other-key", replace_stmt(PS, "Av.__new__", "Av._CLASS_CACHE[basis] = new_instance", "Av._CLASS_CACHE[len(basis)] = new_instance"), "fire", "C02-P5"),
        V("hit-returns-new", replace_stmt(PS, "Av.__new__", "return instance", "return AvBase.__new__(cls, basis, [{Perm(): [0]}])"), "fire", "C02-P5"),
        V("count-off-by-one-level", replace_expr(PS, "Av.count", "self._get_level(length)", "self._get_level(length + 1)"), "fire", "C02-S1"),
        V("contains-wrong-length", replace_expr(PS, "Av.__contains__", "self._get_level(len(other))", "self._get_level(len(other) - 1)"), "fire", "C02-S1"),
        V("contains-not-in", replace_expr(PS, "Av.__contains__", "other in self._get_level(len(other))", "other not in self._get_level(len(other))"), "fire", "C02-S1"),
        V("enumeration-short", replace_expr(PS, "Av.enumeration", "range(length + 1)", "range(length)"), "fire", "C02-S1"),
        V("up-to-length-short", replace_expr(PS, "Av.up_to_length", "range(length + 1)", "range(1, length + 1)"), "fire", "C02-S1"),
        V("is-subclass-any", replace_expr(PS, "Av.is_subclass", "all((p1 not in self for p1 in other.basis))", "any((p1 not in self for p1 in other.basis))"), "fire", "C02-S1"),
        V("is-subclass-reversed-roles", replace_expr(PS, "Av.is_subclass", "all((p1 not in self for p1 in other.basis))", "all((p1 not in other for p1 in self.basis))"), "fire", "C02-S1"),
        V("all-drops-first", replace_stmt(PS, "Av._all", "yield first", ""), "fire", "C02-S1"),
        V("all-drops-rest", replace_stmt(PS, "Av._all", "yield from gen", ""), "fire", "C02-S1"),
        V("all-skips-lengths", replace_stmt(PS, "Av._all", "length += 1", "length += 2"), "fire", "C02-S1"),
        V("all-starts-at-1", replace_stmt(PS, "Av._all", "length = 0", "length = 1"), "fire-or-undecided", "C02-S1"),
        V("count-bypasses-ensure", replace_stmt(PS, "Av.count", "return len(self._get_level(length))", "return len(self.cache[length])"), "fire", "C02-S1"),
        V("get-level-wrong-index", replace_expr(PS, "Av._get_level", "self.cache[level_number]", "self.cache[-1]"), "fire-or-undecided", "C02-S1"),
        V("ensure-range-exclusive", replace_expr(PS, "Av._ensure_level_classical_pattern_basis", "range(len(self.cache), level_number + 1)", "range(len(self.cache), level_number)"), "fire", "C02-E1"),
        V("ensure-mesh-range-exclusive", replace_expr(PS, "Av._ensure_level_mesh_pattern_basis", "range(len(self.cache), level_number + 1)", "range(len(self.cache), level_number)"), "fire", "C02-E1"),
        V("ensure-append-conditional", replace_stmt(PS, "Av._ensure_level_classical_pattern_basis", "self.cache.append(new_level)", "if new_level:\n    self.cache.append(new_level)"), "fire", "C02-E1"),
        V("mesh-level-avoids-first-only", replace_expr(PS, "Av._ensure_level_mesh_pattern_basis", "p.avoids(*self.basis)", "p.avoids(self.basis[0])"), "fire", "C02-E1"),
        V("mesh-level-wrong-length", replace_expr(PS, "Av._ensure_level_mesh_pattern_basis", "Perm.of_length(i)", "Perm.of_length(i + 1)"), "fire", "C02-E1"),
        V("dispatch-swapped", replace_expr(PS, "Av._ensure_level", "isinstance(self.basis, Basis)", "isinstance(self.basis, MeshBasis)"), "fire-or-undecided", "C02-E1"),
        V("compaction-too-eager", replace_expr(PS, "Av._ensure_level", "range(start, level_number - 1)", "range(start, level_number)"), "fire", "C02-E2"),
        V("initial-level-wrong", replace_expr(PS, "Av.__new__", "[{Perm(): [0]}]", "[{Perm(): []}]"), "fire-or-undecided", "C02-E1"),
        # silent
        V("compaction-lazier", replace_expr(PS, "Av._ensure_level", "range(start, level_number - 1)", "range(start, level_number - 2)"), "silent", note="compacting less is always safe"),
        V("reformat", reformat_only(PS), "silent"),
        V("contains-and-form", replace_stmt(PS, "Av.__contains__", "if isinstance(other, Perm): ...", "return isinstance(other, Perm) and other in self._get_level(len(other))"), "silent"),
        V("contains-or-false", replace_expr(PS, "Av.__contains__", "other in self._get_level(len(other))", "other in self._get_level(len(other)) or False"), "silent"),
        V("first-plus-zero", replace_expr(PS, "Av.first", "islice(self._all(), count)", "islice(self._all(), count + 0)"), "silent"),
        V("compaction-items", replace_expr(PS, "Av._ensure_level", "{perm: None for perm in self.cache[i]}", "{perm: None for perm, _ in self.cache[i].items()}"), "silent"),
        V("is-subclass-not-any", replace_expr(PS, "Av.is_subclass", "all((p1 not in self for p1 in other.basis))", "not any((p1 in self for p1 in other.basis))"), "silent"),
        V("all-break-only-classical", replace_stmt(PS, "Av._all", "if first is None: ...", "if first is None:\n    if isinstance(self.basis, Basis):\n        break\n    length += 1\n    continue"), "silent",
          note="restricting the early exit to classical bases removes the known finding (the counter update inside the branch is outside the rule's shape: accepted as silent or undecided)"),
    ]


# ------------------------------------------------------------------ E1/E2: shape of the ensure step




def dispatch_polarity(m: SharedModel, targets):
    """Find the function that refers to both level constructions and say under which polarity of
    `isinstance(self.basis, Basis)` each one is reached: 'Basis', 'not Basis' or '?'."""
    from ..core import method_reference_polarity

    names = [t.name for t in targets]

    def classify(test: ast.AST):
        t = unparse(test)
        if t == "isinstance(self.basis, Basis)":
            return "T"
        if t in ("not isinstance(self.basis, Basis)", "isinstance(self.basis, MeshBasis)"):
            return "F"
        return None

    for fi in m.funcs:
        pol = method_reference_polarity(fi, names, classify)
        if pol is None:
            continue
        tr = {"T": "Basis", "F": "not Basis", "?": "?"}
        first = min((n for n in walk_no_nested(fi.node) if isinstance(n, ast.Attribute) and n.attr in names), key=lambda n: n.lineno)
        return fi, tr[pol[names[0]]], tr[pol[names[1]]], m.stmt_of(fi, first)
    return None


def level_build_summary(fi: FuncInfo):
    """How a function appends levels to self.cache: (statement, range text, loop variable, source text, [filter texts],
    key text, element variable) for `cache.extend({k: v for p in SRC if F} for i in RANGE)` or the equivalent loop
    `for i in RANGE: D = {}; for p in SRC: [if F:] D[k] = v; cache.append(D)` (local aliases of self.cache / self.basis
    are inlined).  None if the construction has another shape."""
    from ..core import flow_env, subst_names

    for st in fi.body:
        env = {k: v for k, v in flow_env(fi, st).items() if isinstance(v, (ast.Attribute, ast.Name))}
        node = subst_names(st, env) if env else st
        # (G) cache.extend(<generator of dict comprehensions>)
        if isinstance(node, ast.Expr) and isinstance(node.value, ast.Call) and unparse(node.value.func) == "self.cache.extend" and len(node.value.args) == 1 \
                and isinstance(node.value.args[0], ast.GeneratorExp) and len(node.value.args[0].generators) == 1:
            ge = node.value.args[0]
            g = ge.generators[0]
            if g.ifs or not isinstance(ge.elt, ast.DictComp) or len(ge.elt.generators) != 1:
                return None
            dc = ge.elt
            inner = dc.generators[0]
            return st, unparse(g.iter), unparse(g.target), unparse(inner.iter), [unparse(f) for f in inner.ifs], unparse(dc.key), unparse(inner.target)
        # (L) one level per step
        if isinstance(node, ast.For) and not node.orelse and node.body:
            last = node.body[-1]
            if not (isinstance(last, ast.Expr) and isinstance(last.value, ast.Call) and unparse(last.value.func) == "self.cache.append" and len(last.value.args) == 1):
                continue
            arg = last.value.args[0]
            if isinstance(arg, ast.DictComp) and len(arg.generators) == 1 and len(node.body) == 1:
                inner = arg.generators[0]
                return st, unparse(node.iter), unparse(node.target), unparse(inner.iter), [unparse(f) for f in inner.ifs], unparse(arg.key), unparse(inner.target)
            if not isinstance(arg, ast.Name) or len(node.body) != 3:
                return None
            init, fill = node.body[0], node.body[1]
            if not (isinstance(init, (ast.Assign, ast.AnnAssign)) and init.value is not None and unparse(init.value) in ("{}", "dict()")
                    and unparse(init.targets[0] if isinstance(init, ast.Assign) else init.target) == arg.id):
                return None
            if not (isinstance(fill, ast.For) and not fill.orelse and len(fill.body) == 1):
                return None
            body = fill.body[0]
            filters = []
            while isinstance(body, ast.If) and not body.orelse and len(body.body) == 1:
                filters.append(unparse(body.test))
                body = body.body[0]
            if not (isinstance(body, ast.Assign) and len(body.targets) == 1 and isinstance(body.targets[0], ast.Subscript) and unparse(body.targets[0].value) == arg.id):
                return None
            return st, unparse(node.iter), unparse(node.target), unparse(fill.iter), filters, unparse(body.targets[0].slice), unparse(fill.target)
    return None


def rule_e1(ctx: Ctx, m: SharedModel) -> None:
    """cache[i] is level i: the cache starts with level 0 only, every missing level from len(cache) up to
    and including the requested one is built in ascending order, exactly one level is appended per step
    (necessary for 'jump ahead / go back / ask membership first')."""
    from ..affine import N, ONE, NotAffine, Poly, poly_of

    repo = ctx.repo
    cls_f = repo.need_method("Av", "_ensure_level_classical_pattern_basis")
    mesh_f = repo.need_method("Av", "_ensure_level_mesh_pattern_basis")
    ens = repo.need_method("Av", "_ensure_level")
    # initial cache: exactly level 0 = {empty permutation}
    new = repo.need_method("Av", "__new__")
    inits = [n for n in walk_no_nested(new.node) if isinstance(n, ast.Call) and call_name(n) and call_name(n)[-1] == "__new__" and len(n.args) >= 3]
    if len(inits) == 1 and unparse(inits[0].args[2]).replace(" ", "") in ("[{Perm():[0]}]",):
        ctx.ok("C02-E1", new.where, "a new class starts with level 0 = {empty permutation} only", inits[0], new)
    else:
        raise AnalysisError(f"{new.where}: initial level cache not recognised")
    want_rng = lambda lv: (f"range(len(self.cache), {lv} + 1)",)
    # classical
    lv = cls_f.params[1]
    loops = [st for st in cls_f.body if isinstance(st, ast.For)]
    if len(loops) != 1:
        # other loops may prepare look-up tables: the level loop is the one that ranges from the current end of the cache
        loops = [st for st in loops if unparse(st.iter).replace(" ", "").startswith("range(len(self.cache)")]
    if len(loops) != 1:
        raise AnalysisError(f"{cls_f.where}: level loop not recognised")
    lp = loops[0]
    if unparse(lp.iter) in want_rng(lv):
        ctx.ok("C02-E1", cls_f.where, f"levels len(cache) .. {lv} are built in ascending order", lp, cls_f)
    else:
        ctx.violation("C02-E1", cls_f, lp, f"levels are built over `{unparse(lp.iter)}`; every missing level from len(self.cache) up to and including {lv} must be built, in ascending order")
    appends = [s for s in m.sites if s.fi is cls_f and s.kind == "field" and s.op in ("append",)]
    if len(appends) == 1 and lp.body and appends[0].stmt is lp.body[-1] and len(appends[0].node.args) == 1:
        ctx.ok("C02-E1", cls_f.where, "exactly one level is appended per step, unconditionally, as the last action of the step", appends[0].stmt, cls_f)
    elif len(appends) == 1 and not any(appends[0].stmt is st for st in lp.body) and any(isinstance(st, ast.If) and any(sub is appends[0].stmt for sub in ast.walk(st)) for st in lp.body):
        ctx.violation("C02-E1", cls_f, lp, "a step of the level loop appends its level only conditionally: cache[i] would no longer be level i")
    elif len(appends) == 0:
        ctx.violation("C02-E1", cls_f, lp, "a step of the level loop does not append a level: cache[i] would no longer be level i")
    else:
        raise AnalysisError(f"{cls_f.where}: how a step of the level loop appends its level is not recognised")
    prev_refs = [n for n in ast.walk(lp) if isinstance(n, ast.Subscript) and unparse(n.value) == "self.cache" and isinstance(n.ctx, ast.Load)]
    ok_prev = [n for n in prev_refs if unparse(n.slice) in ("-1", f"{unparse(lp.target)} - 1", "n", "n - 1") or unparse(n.slice).endswith("- 1")]
    if prev_refs and len(ok_prev) == len(prev_refs):
        ctx.ok("C02-E1", cls_f.where, "each new level is built from the previous (last) level", m.stmt_of(cls_f, prev_refs[0]), cls_f)
    elif not prev_refs:
        helper_reads = [s2 for s2 in m.sites if False]
        raise AnalysisError(f"{cls_f.where}: where a new level reads the previous level is not recognised")
    else:
        raise AnalysisError(f"{cls_f.where}: a new level reads `{unparse(prev_refs[0])}`; not recognised as the previous level")
    # mesh
    lvm = mesh_f.params[1]
    summ = level_build_summary(mesh_f)
    if summ is None:
        raise AnalysisError(f"{mesh_f.where}: the way mesh levels are built is not recognised (neither cache.extend(<dict comprehension> for i in range) nor a loop appending one filtered level per step)")
    node0, rng, ivar, src, filters, key, pvar = summ
    # locals bound before the construction stand for their values (`basis = self.basis`, `first = len(self.cache)`)
    from ..core import flow_env as _fe, subst_names as _sn

    _env = {k: v for k, v in _fe(mesh_f, node0).items() if k not in (ivar, pvar)}

    def _through(text: str) -> str:
        try:
            return unparse(_sn(ast.parse(text, mode="eval").body, _env)) if text and _env else text
        except SyntaxError:
            return text

    rng, src, filters = _through(rng), _through(src), [_through(x) for x in filters]
    want = {"range": (rng, f"range(len(self.cache), {lvm} + 1)"), "source": (src, f"Perm.of_length({ivar})"), "filter": (" and ".join(filters), f"{pvar}.avoids(*self.basis)"), "key": (key, pvar)}
    bad = []
    for what_, (got, exp) in want.items():
        if got.replace(" ", "") == exp.replace(" ", ""):
            continue
        from ..skelrules import edit_distance, spec_from_src

        try:
            d = edit_distance(spec_from_src(f"return {got}") if got else ("true",), spec_from_src(f"return {exp}"), 1)
        except Exception:  # pylint: disable=broad-except
            d = None
        if what_ == "filter" and got.startswith(f"{pvar}.avoids(") and "self.basis" in got:
            d = 1  # tests avoidance of only part of the basis
        if d == 1:
            bad.append(f"{what_} is `{got or 'absent'}`, expected `{exp}`")
        else:
            raise AnalysisError(f"{mesh_f.where}: {what_} of the mesh level construction `{got}` not recognised (expected `{exp}`)")
    if bad:
        ctx.violation("C02-E1", mesh_f, node0, "mesh levels are not `{p for p in Perm.of_length(i) if p.avoids(*self.basis)}` for i = len(self.cache) .. requested level: " + "; ".join(bad))
    else:
        ctx.ok("C02-E1", mesh_f.where, "mesh bases: level i = every permutation of length i that avoids the whole basis, for i = len(cache) .. requested", node0, mesh_f)
    # dispatch: under which condition on the kind of basis is each construction reached?
    pol = dispatch_polarity(m, [cls_f, mesh_f])
    if pol is None:
        raise AnalysisError(f"{ens.where}: dispatch on the kind of basis not recognised")
    host, c_pol, m_pol, node = pol
    if c_pol == "Basis" and m_pol == "not Basis":
        ctx.ok("C02-E1", host.where, "classical bases -> insertion construction, everything else -> filtering", node, host)
    elif c_pol == "not Basis" and m_pol == "Basis":
        ctx.violation("C02-E1", host, node, "the two level constructions are dispatched to the wrong kind of basis")
    else:
        raise AnalysisError(f"{host.where}: dispatch on the kind of basis not recognised ({cls_f.name}: {c_pol}; {mesh_f.name}: {m_pol})")
    # ---- E2: compaction leaves the last two levels expandable
    lvl = ens.params[1]
    comp = [st for st in ens.body if isinstance(st, ast.For)]
    if not comp:
        ctx.ok("C02-E2", ens.where, "no compaction")
        return
    cp = comp[0]
    it = cp.iter
    if not (isinstance(it, ast.Call) and call_name(it) == ("range",) and len(it.args) == 2):
        raise AnalysisError(f"{ens.where}: compaction range not recognised")
    try:
        stop = poly_of(it.args[1], {lvl: Poly.sym("L")})
    except NotAffine:
        raise AnalysisError(f"{ens.where}: compaction bound not affine")
    slack = stop - (Poly.sym("L") - ONE)
    if slack.is_const() and slack.coef() <= 0:
        ctx.ok("C02-E2", ens.where, f"compaction stops before level {lvl} - 1: the last two levels keep their insertion data (needed by the next expansion)", cp, ens)
    elif slack.is_const():
        ctx.violation("C02-E2", ens, cp, f"compaction runs up to `{unparse(it.args[1])}` (exclusive) and strips the insertion data of level {lvl} - 1 or {lvl}, which the next expansion reads: a later, longer query fails")
    else:
        raise AnalysisError(f"{ens.where}: compaction bound `{unparse(it.args[1])}` not comparable with {lvl} - 1")
    idx = unparse(cp.target)
    tgt_ok = len(cp.body) == 1 and isinstance(cp.body[0], ast.Assign) and unparse(cp.body[0].targets[0]) == f"self.cache[{idx}]"
    if not tgt_ok:
        raise AnalysisError(f"{ens.where}: compaction body not recognised")
    # the lower bound is computed before the levels are added (otherwise already needed data of new levels is safe anyway)
    start_txt = unparse(it.args[0])
    starts = [st for st in ens.body if isinstance(st, ast.Assign) and unparse(st.targets[0]) == start_txt]
    grow_pos = min((i for i, st in enumerate(ens.body) if any(isinstance(n, ast.Attribute) and n.attr in (cls_f.name, mesh_f.name) for n in ast.walk(st))
                    or any(isinstance(n, ast.Call) and isinstance(n.func, ast.Attribute) and isinstance(n.func.value, ast.Name) and n.func.value.id == "self" and ctx.repo.method("Av", n.func.attr) is not None
                           and ctx.repo.method("Av", n.func.attr).where == host.where for n in ast.walk(st))), default=None)
    if starts and grow_pos is not None and ens.body.index(starts[0]) < grow_pos and unparse(starts[0].value) in ("max(0, len(self.cache) - 2)",):
        ctx.ok("C02-E2", ens.where, "compaction starts at the first level that may still hold insertion data (two before the old end)", starts[0], ens)
    elif starts:
        ctx.note(f"C02-E2: compaction start `{unparse(starts[0].value)}` not in the recognised form (only efficiency depends on it)")


_OLD_RUN = run


def run(ctx: Ctx) -> None:  # noqa: F811
    _OLD_RUN(ctx)
    model = SharedModel(ctx.repo, "Av")
    ctx.run(rule_e1, ctx, model)


FLOORS["C02-E1"] = 6
FLOORS["C02-E2"] = 1


# ------------------------------------------------------------------ C02-E3: binary searches run on sequences sorted by construction


def rule_bisect(ctx: Ctx) -> None:
    from ..core import check_bisect_preconditions

    n = check_bisect_preconditions(ctx, "C02-E3", ['permuta.perm_sets.permset', 'permuta.perm_sets.basis'])
    if n == 0:
        ctx.ok("C02-E3", "permuta.perm_sets.permset", "no binary search in the anchored modules (nothing to establish)")


_OLD_RUN_BISECT = run


def run(ctx: Ctx) -> None:  # noqa: F811
    _OLD_RUN_BISECT(ctx)
    ctx.run(rule_bisect, ctx)


FLOORS["C02-E3"] = 1
