"""C05 – a basis is a canonical, order-independent description of its class."""

from __future__ import annotations

import ast
from typing import List, Optional, Tuple

from .. import oneshot
from ..core import AnalysisError, FuncInfo, Repo, attr_chain, call_name, is_const, unparse, walk_no_nested
from ..lockflow import SharedModel
from ..report import Ctx
from ..skelrules import check_skeleton
from . import c02, c08

PROP = "C05"
FLOORS = {"C05-O1": 6, "C05-O2": 4, "C05-I1": 5, "C05-T1": 2, "C05-K1": 1, "C05-D1": 2}

EXPLANATION = (
    "Decided: (a) any order / any repetitions give the same basis – the greedy pruning loop only ever sees the canonically sorted list of all inputs "
    "(O1: sole call site, sorted(all inputs) with no reversing/keying, single in-order pass, accept test against the already accepted elements); "
    "(b) every admissible mixture can be sorted at all (O2 = C08-R5 on the mesh-pattern ordering methods); (c) one-shot iterables are accepted "
    "(I1, one-shot discipline on Av.__new__/from_iterable/Basis.from_iterable/MeshBasis.from_iterable/is_mesh_basis); (d) equal bases denote the same "
    "class object (K1 = C02-P5 lookup-or-insert keyed by the basis; D1: every non-basis input is funnelled through Basis/MeshBasis); (e) text parsing "
    "standardises every digit token, so 0-based and 1-based text agree (T1). NOT decided: minimality / fixed point of the greedy pruning (needs the "
    "sort order to be a linear extension of containment: true for Perm's (length, lex) order, false for MeshPatt's key – documented in DESIGN.md, "
    "not statically derivable) and that the pruned basis defines the same class."
)

I1_ANCHORS = ["Av.__new__", "Av.from_iterable", "Basis.from_iterable", "MeshBasis.from_iterable", "MeshBasis.is_mesh_basis"]


def run(ctx: Ctx) -> None:
    ctx.run(rule_o1, ctx)
    ctx.run(rule_o2, ctx)
    ctx.run(oneshot.report, ctx, "C05-I1", ["permuta.perm_sets"], I1_ANCHORS)
    ctx.run(rule_t1, ctx)
    ctx.run(rule_k1, ctx)
    ctx.run(rule_d1, ctx)


def rule_o1(ctx: Ctx) -> None:
    repo = ctx.repo
    for cname in ("Basis", "MeshBasis"):
        ci = repo.cls(cname)
        new = repo.need_method(cname, "__new__")
        pruner = repo.need_method(cname, "_pruner")
        # who calls _pruner
        for fi in repo.all_funcs():
            for node in walk_no_nested(fi.node):
                if isinstance(node, ast.Call):
                    cn = call_name(node)
                    if cn and cn[-1] == "_pruner" and (cn[0] in ("cls", "self", cname) and (fi.cls is not None and fi.cls.name == cname or cn[0] == cname)):
                        if fi is new:
                            check_pruner_arg(ctx, cname, new, node)
                        else:
                            ctx.violation("C05-O1", fi, node, f"{cname}._pruner is called from {fi.qual}: the pruning loop may see an unsorted list")
        calls_in_new = [n for n in walk_no_nested(new.node) if isinstance(n, ast.Call) and call_name(n) and call_name(n)[-1] == "_pruner"]
        if len(calls_in_new) != 1:
            raise AnalysisError(f"{new.where}: expected exactly one call of the pruning loop, found {len(calls_in_new)}")
        check_pruner_body(ctx, cname, pruner)
        # every way out of the constructor: the pruned list, or the empty basis when nothing was given
        va = new.vararg
        derived = {va} | {st.targets[0].id for st in walk_no_nested(new.node) if isinstance(st, ast.Assign) and len(st.targets) == 1 and isinstance(st.targets[0], ast.Name)
                          and any(isinstance(n, ast.Name) and n.id == va for n in ast.walk(st.value))}
        rets = [n for n in walk_no_nested(new.node) if isinstance(n, ast.Return)]
        pruned = 0
        for r in rets:
            v = r.value
            if isinstance(v, ast.IfExp) and unparse(v.test) == va and v.body is calls_in_new[0] and not any(isinstance(n, ast.Name) and n.id in derived for n in ast.walk(v.orelse)):
                pruned += 1
                ctx.ok("C05-O1", new.where, "no patterns -> empty basis", r, new)
                continue
            if v is calls_in_new[0]:
                pruned += 1
                continue
            if v is not None and any(sub is calls_in_new[0] for sub in ast.walk(v)):
                raise AnalysisError(f"{new.where}: the pruned list is post-processed (`{unparse(v)[:60]}`) before it is returned")
            if v is not None and any(isinstance(n, ast.Name) and n.id in derived for n in ast.walk(v)):
                ctx.violation("C05-O1", new, r, f"{cname}.__new__ returns `{unparse(v)[:60]}` built from the input without pruning/sorting it", robust=True)
                continue
            if empty_context(new, r, va):
                ctx.ok("C05-O1", new.where, "no patterns -> empty basis", r, new)
            else:
                raise AnalysisError(f"{new.where}: a return that is neither the pruned list nor the empty-input shortcut (`{unparse(r)[:60]}`)")
        if pruned != 1:
            raise AnalysisError(f"{new.where}: the pruned list is not returned directly")


def empty_context(new: FuncInfo, ret: ast.Return, va: str) -> bool:
    """The return is reached only when no pattern was given: inside `if not va:` / the else of `if va:`, or
    after an `if va:` whose body always leaves the function."""
    body = new.body
    for i, st in enumerate(body):
        if isinstance(st, ast.If):
            t = unparse(st.test)
            if t == f"not {va}" and any(n is ret for b in st.body for n in ast.walk(b)):
                return True
            if t == va and any(n is ret for b in st.orelse for n in ast.walk(b)):
                return True
            if t == va and not st.orelse and st.body and isinstance(st.body[-1], (ast.Return, ast.Raise)) and any(n is ret for later in body[i + 1:] for n in ast.walk(later)):
                return True
    return False


def check_pruner_arg(ctx: Ctx, cname: str, new: FuncInfo, call: ast.Call) -> None:
    va = new.vararg
    if va is None:
        raise AnalysisError(f"{new.where}: constructor no longer takes *patts")
    if len(call.args) != 1:
        raise AnalysisError(f"{new.where}: _pruner call shape")
    arg = call.args[0]
    if isinstance(arg, ast.Name):
        # a local bound once (e.g. `ordered = sorted(patts)`) stands for its value
        binds = [st for st in walk_no_nested(new.node) if isinstance(st, ast.Assign) and len(st.targets) == 1 and isinstance(st.targets[0], ast.Name) and st.targets[0].id == arg.id]
        muts = [n for n in walk_no_nested(new.node) if isinstance(n, ast.Call) and isinstance(n.func, ast.Attribute) and isinstance(n.func.value, ast.Name) and n.func.value.id == arg.id
                and n.func.attr in ("append", "extend", "insert", "reverse", "sort", "pop", "remove", "clear")]
        if len(binds) == 1 and not muts and arg.id != va:
            arg = binds[0].value
        elif arg.id != va:
            raise AnalysisError(f"{new.where}: the list handed to the pruning loop (`{arg.id}`) is built in several steps; whether it is sorted is not recognised")
    if not (isinstance(arg, ast.Call) and call_name(arg) == ("sorted",)):
        raw = arg.args[0] if isinstance(arg, ast.Call) and call_name(arg) in (("list",), ("tuple",)) and len(arg.args) == 1 else arg
        if isinstance(raw, ast.Name) and raw.id == va or (isinstance(raw, (ast.ListComp, ast.GeneratorExp)) and len(raw.generators) == 1 and isinstance(raw.generators[0].iter, ast.Name)
                                                          and raw.generators[0].iter.id == va):
            ctx.violation("C05-O1", new, call, f"the pruning loop receives `{unparse(arg)[:60]}`, not a sorted list: the resulting basis depends on the order in which patterns were given", robust=True)
            return
        raise AnalysisError(f"{new.where}: whether `{unparse(arg)[:60]}` is the sorted list of all inputs is not recognised")
    for kw in arg.keywords:
        if kw.arg == "reverse" and not is_const(kw.value, False):
            ctx.violation("C05-O1", new, call, "patterns are sorted in reverse: a pattern is pruned against larger ones only, the result is not the canonical minimal basis")
            return
        if kw.arg == "key":
            verdict = sort_key_injective(ctx, cname, kw.value)
            if verdict is None:
                raise AnalysisError(f"{new.where}: sorted(..., key=...) – cannot decide whether the key determines the pattern")
            if verdict is not True:
                ctx.violation("C05-O1", new, call, f"the sort key `{unparse(kw.value)[:70]}` does not determine the pattern ({verdict}): tied patterns keep their input order (sort is stable), so the basis depends on the order in which patterns were given", robust=True)
                return
    src = arg.args[0]
    if isinstance(src, ast.Name) and src.id == va:
        ctx.ok("C05-O1", new.where, f"_pruner(sorted({va})): all inputs, canonical order", call, new)
        return
    if isinstance(src, (ast.GeneratorExp, ast.ListComp)) and len(src.generators) == 1:
        g = src.generators[0]
        if g.ifs:
            ctx.violation("C05-O1", new, call, "some input patterns are filtered out before sorting/pruning")
            return
        if not (isinstance(g.iter, ast.Name) and g.iter.id == va):
            ctx.violation("C05-O1", new, call, f"sorting covers `{unparse(g.iter)}` instead of all inputs `{va}`")
            return
        # element: p if isinstance(p, MeshPatt) else MeshPatt(p, [])
        elt, var = src.elt, unparse(g.target)
        ok = (
            isinstance(elt, ast.IfExp) and unparse(elt.test) == f"isinstance({var}, MeshPatt)" and unparse(elt.body) == var
            and isinstance(elt.orelse, ast.Call) and call_name(elt.orelse) == ("MeshPatt",) and unparse(elt.orelse.args[0]) == var
            and (len(elt.orelse.args) == 1 or unparse(elt.orelse.args[1]) in ("[]", "()", "frozenset()", "set()"))
        ) or unparse(elt) == var
        if ok:
            ctx.ok("C05-O1", new.where, "_pruner(sorted(every input, classical patterns wrapped as unshaded mesh patterns))", call, new)
        else:
            ctx.violation("C05-O1", new, call, f"inputs are transformed by `{unparse(elt)[:70]}` before pruning; classical patterns must be wrapped as *unshaded* mesh patterns and mesh patterns kept as they are")
        return
    if isinstance(src, ast.Call) and call_name(src) == ("map",) and len(src.args) == 2 and isinstance(src.args[1], ast.Name) and src.args[1].id == va:
        # map(<wrapper>, inputs): the wrapper must keep mesh patterns and wrap classical ones unshaded
        h = None
        fcn = call_name(ast.Call(func=src.args[0], args=[], keywords=[]))
        if fcn:
            h = ctx.repo.method(cname, fcn[-1]) or new.module.functions.get(fcn[-1])
        if h is not None:
            ps = h.params if (h.cls is None or h.is_static) else h.params[1:]
            rets = [st for st in h.body if isinstance(st, ast.Return)]
            if len(ps) == 1 and len(h.body) == 1 and len(rets) == 1 and isinstance(rets[0].value, ast.IfExp):
                v, e = ps[0], rets[0].value
                if unparse(e.test) == f"isinstance({v}, MeshPatt)" and unparse(e.body) == v and isinstance(e.orelse, ast.Call) and call_name(e.orelse) == ("MeshPatt",):
                    a0 = e.orelse.args[0] if e.orelse.args else next((k.value for k in e.orelse.keywords if k.arg == "pattern"), None)
                    sh = e.orelse.args[1] if len(e.orelse.args) > 1 else next((k.value for k in e.orelse.keywords if k.arg == "shading"), None)
                    if a0 is not None and unparse(a0) == v and (sh is None or unparse(sh) in ("[]", "()", "frozenset()", "set()")):
                        ctx.ok("C05-O1", new.where, f"_pruner(sorted(map({unparse(src.args[0])}, inputs))): every input, classical patterns wrapped as unshaded mesh patterns", call, new)
                        return
        raise AnalysisError(f"{new.where}: the wrapper `{unparse(src.args[0])}` applied to the inputs before sorting is not recognised")
    if isinstance(src, ast.Subscript) and isinstance(src.value, ast.Name) and src.value.id == va:
        ctx.violation("C05-O1", new, call, f"sorted() is applied to `{unparse(src)[:60]}`, not to all input patterns")
        return
    raise AnalysisError(f"{new.where}: what is sorted (`{unparse(src)[:60]}`) is not recognised")


def sort_key_injective(ctx: Ctx, cname: str, key: ast.AST):
    """True if the key determines the element (no ties between different patterns); a string reason if it
    visibly loses information; None if unknown."""
    if isinstance(key, ast.Name) and key.id in ("len", "sum", "max", "min", "hash"):
        return f"{key.id}() is shared by many different patterns"
    if not isinstance(key, ast.Lambda) or len(key.args.args) != 1:
        return None
    v = key.args.args[0].arg
    comps = key.body.elts if isinstance(key.body, ast.Tuple) else [key.body]
    if cname == "Basis":
        # elements are permutations (tuples): the key must contain the permutation itself
        for c in comps:
            if unparse(c) in (v, f"tuple({v})"):
                return True
        return "the permutation itself is not part of the key"
    fields = {"pattern": False, "shading": False}
    for c in comps:
        t = unparse(c)
        if t == f"{v}.pattern":
            fields["pattern"] = True
        elif t in (f"sorted({v}.shading)", f"tuple(sorted({v}.shading))"):
            fields["shading"] = True
        elif t == v:
            return True
    missing = [f for f, ok in fields.items() if not ok]
    if missing:
        return f"it does not determine {missing}"
    return True


def check_pruner_body(ctx: Ctx, cname: str, pr: FuncInfo) -> None:
    param = pr.params[1] if len(pr.params) > 1 else None
    if param is None:
        raise AnalysisError(f"{pr.where}: parameter list changed")
    loops = [st for st in pr.body if isinstance(st, ast.For)]
    if len(loops) != 1:
        raise AnalysisError(f"{pr.where}: expected one pruning loop")
    loop = loops[0]
    if not (isinstance(loop.iter, ast.Name) and loop.iter.id == param):
        ctx.violation("C05-O1", pr, loop, f"pruning loop iterates `{unparse(loop.iter)}`, not the sorted list in order")
        return
    var = unparse(loop.target)
    if not (len(loop.body) == 1 and isinstance(loop.body[0], ast.If) and not loop.body[0].orelse):
        raise AnalysisError(f"{pr.where}: loop body shape")
    test, body = loop.body[0].test, loop.body[0].body
    acc = None
    if isinstance(test, ast.Call) and call_name(test) == (var, "avoids") and len(test.args) == 1 and isinstance(test.args[0], ast.Starred) and isinstance(test.args[0].value, ast.Name):
        acc = test.args[0].value.id
    elif isinstance(test, ast.Call) and call_name(test) == (var, "avoids_set") and len(test.args) == 1 and isinstance(test.args[0], ast.Name):
        acc = test.args[0].id
    if acc is None and isinstance(test, ast.BoolOp):
        # the exact test wrapped in and/or: recognised, but no longer "accept iff it avoids every accepted element"
        inner = [v for v in test.values if isinstance(v, ast.Call) and call_name(v) == (var, "avoids") and len(v.args) == 1 and isinstance(v.args[0], ast.Starred)]
        if len(inner) == 1:
            accn = unparse(inner[0].args[0].value)
            others = [v for v in test.values if v is not inner[0]]
            if isinstance(test.op, ast.Or) and all(unparse(o) == f"not {accn}" for o in others):
                acc = accn  # ``not acc or patt.avoids(*acc)`` is the same test
            elif isinstance(test.op, ast.Or):
                ctx.violation("C05-O1", pr, loop.body[0], f"a pattern is also accepted when `{' or '.join(unparse(o) for o in others)}` without being checked against the accepted elements: the basis may keep an element that contains another (or a repeated element)", robust=True)
                return
            else:
                ctx.violation("C05-O1", pr, loop.body[0], f"a pattern that avoids every accepted element is still dropped unless `{' and '.join(unparse(o) for o in others)}`: the pruned basis may no longer define the class of the input")
                return
    if acc is None and isinstance(test, ast.Call) and call_name(test) in ((var, "avoids"), (var, "avoids_set")) and len(test.args) == 1:
        a0 = test.args[0].value if isinstance(test.args[0], ast.Starred) else test.args[0]
        if isinstance(a0, (ast.GeneratorExp, ast.ListComp, ast.SetComp)) and len(a0.generators) == 1 and a0.generators[0].ifs and isinstance(a0.generators[0].iter, ast.Name) \
                and unparse(a0.elt) == unparse(a0.generators[0].target):
            ctx.violation("C05-O1", pr, loop.body[0], f"a pattern is checked only against the accepted elements with `{' and '.join(unparse(c) for c in a0.generators[0].ifs)[:70]}`, not against every accepted element: "
                          "the basis may keep an element that contains another (or a repeated element)", robust=True)
            return
    if acc is None:
        if isinstance(test, ast.Call) and call_name(test) and call_name(test)[-1] in ("contains", "avoids", "avoids_set"):
            ctx.violation("C05-O1", pr, loop.body[0], f"accept test `{unparse(test)}` is not `pattern avoids every accepted element`")
            return
        raise AnalysisError(f"{pr.where}: accept test `{unparse(test)}` not recognised")
    if not (len(body) == 1 and isinstance(body[0], ast.Expr) and isinstance(body[0].value, ast.Call) and call_name(body[0].value) == (acc, "append") and unparse(body[0].value.args[0]) == var):
        ctx.violation("C05-O1", pr, loop.body[0], f"an accepted pattern is not appended to `{acc}`")
        return
    inits = [st for st in pr.body if isinstance(st, (ast.Assign, ast.AnnAssign)) and unparse(st.targets[0] if isinstance(st, ast.Assign) else st.target) == acc]
    if not (len(inits) == 1 and unparse(inits[0].value) == "[]" and pr.body.index(inits[0]) < pr.body.index(loop)):
        ctx.violation("C05-O1", pr, inits[0] if inits else loop, f"accepted list `{acc}` does not start empty")
        return
    rets = [st for st in pr.body[pr.body.index(loop):] if isinstance(st, ast.Return)]
    if not (len(rets) == 1 and isinstance(rets[0].value, ast.Call) and call_name(rets[0].value) == ("tuple", "__new__") and len(rets[0].value.args) == 2 and unparse(rets[0].value.args[1]) in (acc, f"tuple({acc})")):
        ctx.violation("C05-O1", pr, rets[0] if rets else loop, f"the basis is not built from the accepted list `{acc}`")
        return
    ctx.ok("C05-O1", pr.where, f"single in-order pass; accept iff `{var}.avoids(*{acc})`; result = accepted list", loop, pr)
    # empty-pattern shortcut: sorted => the empty pattern, if present, is first
    first = pr.body[0]
    if isinstance(first, ast.If) and first is not loop.body[0]:
        if unparse(first.test) == f"len({param}[0]) == 0" and len(first.body) == 1 and unparse(first.body[0]) == f"return tuple.__new__(cls, ({param}[0],))":
            ctx.ok("C05-O1", pr.where, "a basis containing the empty pattern collapses to it (first after sorting)", first, pr)
        else:
            ctx.violation("C05-O1", pr, first, f"shortcut `if {unparse(first.test)}: {unparse(first.body[0])[:50]}` before the pruning loop: only 'the first (smallest) pattern is empty -> the basis is that pattern' is sound")


def rule_o2(ctx: Ctx) -> None:
    sub = Ctx("C08", ctx.repo)
    classes = c08.in_scope(ctx.repo)
    hi = c08.rule_r2_r3(sub, classes)
    groups = c08.rule_r4(sub, classes, hi)
    sub.findings.clear()
    sub.obligations.clear()
    c08.rule_r5_r6(sub, [c for c in classes if c.name == "MeshPatt"], groups)
    for o in sub.obligations:
        if o["rule"] == "C08-R5" and o["verdict"] == "discharged":
            ctx.ok("C05-O2", o["where"], "sorted() is defined on every mixture of mesh-type patterns: " + o["what"])
    for f in sub.findings:
        if f.rule == "C08-R5":
            fi = ctx.repo.funcs[f.where]
            ctx.violation("C05-O2", fi, fi.node, "sorting a mixture of mesh-type patterns raises TypeError: " + f.message)


def rule_t1(ctx: Ctx) -> None:
    repo = ctx.repo
    fs = repo.need_method("Basis", "from_string")
    specs = [
        'return cls(*map(Perm.to_standard, re.findall("\\\\d+", a0)))',
        'return cls(*(Perm.to_standard(x) for x in re.findall("\\\\d+", a0)))',
        'return cls(*[Perm.to_standard(x) for x in re.findall("\\\\d+", a0)])',
    ]
    # which constructor is applied to the digit tokens?
    ctors = []
    for node in walk_no_nested(fs.node):
        if isinstance(node, ast.Call) and call_name(node) == ("map",) and node.args:
            ch = attr_chain(node.args[0])
            if ch and ch[0] == "Perm":
                ctors.append((ch[-1], node))
        if isinstance(node, ast.Call):
            ch = call_name(node)
            if ch and len(ch) == 2 and ch[0] == "Perm" and isinstance(_parent_comp(fs.node, node), (ast.GeneratorExp, ast.ListComp)):
                ctors.append((ch[1], node))
    non_std = [(c, n) for c, n in ctors if repo.method("Perm", c) is not None and repo.method("Perm", c).name != "to_standard"]
    if non_std:
        for c, n in non_std:
            ctx.violation("C05-T1", fs, n, f"digit tokens are converted with Perm.{c}, which does not standardise: '132' and '021' would give different bases (or invalid permutations)", robust=True)
        return
    ctx.run(check_skeleton, ctx, "C05-T1", fs, specs, "Basis.from_string standardises every digit token (0-/1-based agree)")
    avfs = repo.need_method("Av", "from_string")
    ctx.run(check_skeleton, ctx, "C05-T1", avfs, ["return cls(Basis.from_string(a0))"], "Av.from_string delegates to Basis.from_string")


def _parent_comp(root: ast.AST, target: ast.AST):
    for node in ast.walk(root):
        if isinstance(node, (ast.GeneratorExp, ast.ListComp)) and node.elt is target:
            return node
    return None


def rule_k1(ctx: Ctx) -> None:
    sub = Ctx("C02", ctx.repo)
    model = SharedModel(ctx.repo, "Av")
    c02.rule_p5(sub, model)
    for o in sub.obligations:
        if o["verdict"] == "discharged":
            ctx.ok("C05-K1", o["where"], "equal bases denote the same class object: " + o["what"])
    for f in sub.findings:
        fi = ctx.repo.funcs[f.where]
        ctx.violation("C05-K1", fi, fi.node, f.message, robust=True)


def rule_d1(ctx: Ctx) -> None:
    repo = ctx.repo
    fi = repo.need_method("Av", "from_iterable")
    specs = []
    for mat in ("tuple(a0)", "list(a0)"):
        specs.append(f"b = {mat}\nif MeshBasis.is_mesh_basis(b):\n    return cls(MeshBasis(*b))\nreturn cls(Basis(*b))")
    ctx.run(check_skeleton, ctx, "C05-D1", fi, specs, "Av.from_iterable funnels every collection through MeshBasis(*..) / Basis(*..)")
    new = repo.need_method("Av", "__new__")
    first = new.body[0]
    if isinstance(first, ast.If) and unparse(first.test) == f"not isinstance({new.params[1]}, (Basis, MeshBasis))" and len(first.body) == 1 and unparse(first.body[0]) in (f"return Av.from_iterable({new.params[1]})", f"return cls.from_iterable({new.params[1]})"):
        ctx.ok("C05-D1", new.where, "non-basis input is converted by from_iterable before the identity lookup", first, new)
    else:
        raise AnalysisError(f"{new.where}: dispatch on basis type not recognised")
    imb = repo.need_method("MeshBasis", "is_mesh_basis")
    ctx.run(check_skeleton, ctx, "C05-D1", imb, [
        "if isinstance(a0, Perm):\n    return False\nif isinstance(a0, MeshPatt):\n    return True\nif isinstance(a0, Patt):\n    raise ValueError\nreturn any(isinstance(p, MeshPatt) for p in a0)",
        "return any(isinstance(p, MeshPatt) for p in a0)",
    ], "is_mesh_basis = some element is a mesh pattern (single patterns answered by their own kind)")
    for cname in ("Basis", "MeshBasis"):
        f = repo.need_method(cname, "from_iterable")
        ctx.run(check_skeleton, ctx, "C05-D1", f, ["return cls(*a0)", "return cls(*tuple(a0))"], f"{cname}.from_iterable = {cname}(*patts)")


GENERIC_FILES = ['permuta/perm_sets/basis.py', 'permuta/patterns/meshpatt.py', 'permuta/perm_sets/permset.py']


def variants():
    from ..selftest import generic_equiv, generic_silent

    return _variants() + generic_silent(GENERIC_FILES) + generic_equiv(GENERIC_FILES)


def _variants():
    from ..selftest import V, insert_stmt, reformat_only, rename_local, replace_expr, replace_stmt

    BA, PS, MP = "permuta/perm_sets/basis.py", "permuta/perm_sets/permset.py", "permuta/patterns/meshpatt.py"
    return [
        V("basis-no-sort", replace_expr(BA, "Basis.__new__", "cls._pruner(sorted(patts))", "cls._pruner(list(patts))"), "fire", "C05-O1"),
        V("basis-sort-reverse", replace_expr(BA, "Basis.__new__", "sorted(patts)", "sorted(patts, reverse=True)"), "fire", "C05-O1"),
        V("meshbasis-filter-inputs", replace_expr(BA, "MeshBasis.__new__", "sorted((patt if isinstance(patt, MeshPatt) else MeshPatt(patt, []) for patt in patts))",
                                                  "sorted((patt if isinstance(patt, MeshPatt) else MeshPatt(patt, []) for patt in patts if len(patt) > 0))"), "fire", "C05-O1"),
        V("meshbasis-wrap-shaded", replace_expr(BA, "MeshBasis.__new__", "MeshPatt(patt, [])", "MeshPatt(patt, [(0, 0)])"), "fire", "C05-O1"),
        V("meshbasis-key-with-ties", replace_expr(BA, "MeshBasis.__new__", "sorted((patt if isinstance(patt, MeshPatt) else MeshPatt(patt, []) for patt in patts))", "sorted((patt if isinstance(patt, MeshPatt) else MeshPatt(patt, []) for patt in patts), key=lambda m: (m.pattern, len(m.shading)))"), "fire", "C05-O1"),
        V("basis-key-length-only", replace_expr(BA, "Basis.__new__", "sorted(patts)", "sorted(patts, key=len)"), "fire", "C05-O1"),
        V("meshbasis-key-total", replace_expr(BA, "MeshBasis.__new__", "sorted((patt if isinstance(patt, MeshPatt) else MeshPatt(patt, []) for patt in patts))", "sorted((patt if isinstance(patt, MeshPatt) else MeshPatt(patt, []) for patt in patts), key=lambda m: (m.pattern, sorted(m.shading)))"), "silent"),
        V("pruner-reversed-pass", replace_expr(BA, "Basis._pruner", "patts", "reversed(patts)", which=3), "fire-or-undecided", "C05-O1"),
        V("pruner-accept-contains", replace_expr(BA, "MeshBasis._pruner", "patt.avoids(*new_basis)", "patt.contains(*new_basis)"), "fire", "C05-O1"),
        V("pruner-against-input", replace_expr(BA, "Basis._pruner", "patt.avoids(*new_basis)", "patt.avoids(*patts)"), "fire-or-undecided", "C05-O1"),
        V("pruner-shortcut-flipped", replace_expr(BA, "Basis._pruner", "len(patts[0]) == 0", "len(patts[0]) != 0"), "fire", "C05-O1"),
        V("is-mesh-basis-all", replace_expr(BA, "MeshBasis.is_mesh_basis", "any((isinstance(patt, MeshPatt) for patt in basis))", "all((isinstance(patt, MeshPatt) for patt in basis))"), "fire", "C05-D1"),
        V("is-mesh-basis-perm-true", replace_stmt(BA, "MeshBasis.is_mesh_basis", "return False", "return True"), "fire", "C05-D1"),
        V("new-drops-return", replace_stmt(BA, "MeshBasis.__new__", "return cls._pruner(sorted((patt if isinstance(patt, MeshPatt) else MeshPatt(patt, []) for patt in patts)))", "cls._pruner(sorted((patt if isinstance(patt, MeshPatt) else MeshPatt(patt, []) for patt in patts)))\nreturn tuple.__new__(cls, patts)"), "fire", "C05-O1"),
        V("pruner-extra-caller", insert_stmt(BA, "Basis.from_iterable", "return cls(*patts)", "return cls._pruner(list(patts))", "before"), "fire", "C05-O1"),
        V("mesh-order-dynamic-guard", replace_expr(MP, "MeshPatt.__lt__", "isinstance(other, MeshPatt)", "isinstance(other, self.__class__)"), "fire", "C05-O2"),
        V("from-iterable-double-consume", replace_stmt(PS, "Av.from_iterable", "basis = tuple(basis)", ""), "fire", "C05-I1", "the original defect"),
        V("basis-from-iterable-twice", replace_stmt(BA, "Basis.from_iterable", "return cls(*patts)", "if any(len(p) == 0 for p in patts):\n    return cls(Perm())\nreturn cls(*patts)"), "fire", "C05-I1"),
        V("from-string-not-standardised", replace_expr(BA, "Basis.from_string", "Perm.to_standard", "Perm.from_string"), "fire", "C05-T1"),
        V("from-string-one-based", replace_expr(BA, "Basis.from_string", "map(Perm.to_standard, re.findall('\\\\d+', patts))", "map(Perm.one_based, map(lambda s: map(int, s), re.findall('\\\\d+', patts)))"), "fire-or-undecided", "C05-T1"),
        V("new-miss-not-stored", replace_stmt(PS, "Av.__new__", "Av._CLASS_CACHE[basis] = new_instance", ""), "fire", "C05-K1"),
        V("from-iterable-skips-basis", replace_expr(PS, "Av.from_iterable", "cls(Basis(*basis))", "cls(tuple.__new__(Basis, basis))"), "fire-or-undecided", "C05-D1"),
        V("from-iterable-branches-swapped", [replace_expr(PS, "Av.from_iterable", "cls(MeshBasis(*basis))", "cls(Basis(*basis))"), replace_expr(PS, "Av.from_iterable", "cls(Basis(*basis))", "cls(MeshBasis(*basis))", which=2)], "fire", "C05-D1"),
        # silent
        V("reformat", reformat_only(BA), "silent"),
        V("rename-pruner-local", rename_local(BA, "Basis._pruner", "new_basis", "kept"), "silent"),
        V("from-iterable-list", replace_stmt(PS, "Av.from_iterable", "basis = tuple(basis)", "basis = list(basis)"), "silent"),
        V("from-string-genexp", replace_expr(BA, "Basis.from_string", "map(Perm.to_standard, re.findall('\\\\d+', patts))", "(Perm.to_standard(tok) for tok in re.findall('\\\\d+', patts))"), "silent"),
    ]
