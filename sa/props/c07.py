"""C07 – concurrent queries on a permutation class: lock discipline for every schedule."""

from __future__ import annotations

import ast
from typing import Dict, List, Optional, Set, Tuple

from ..core import AnalysisError, FuncInfo, Repo, attr_chain, call_name, unparse, walk_no_nested
from ..lockflow import ELEM, FIELD, FRESH, GROWTH, KEY_MUTATORS, VAL, SharedModel, Site
from ..report import Ctx

PROP = "C07"
FLOORS = {"C07-L1": 4, "C07-L2": 1, "C07-L3": 1, "C07-L4": 1, "C07-L5": 4}

EXPLANATION = (
    "Decided for every thread schedule (relative to the trusted base: single list/dict operations are atomic under the GIL, a dict iterator is "
    "invalidated only by a change of the key set): L1 every mutation of the shared level cache (and of any alias of it, its levels or their values) "
    "happens with the one class-level lock held – lexically inside `with <lock>` or in a function all of whose call sites hold it (fixpoint over the "
    "class call graph, nested functions included); L2 the lock is one shared object bound once; L3 no re-entry into the non-reentrant lock from the "
    "locked region; L4 every unlocked read of the cache is an index load dominated by a locked ensure call for the same, un-reassigned index; "
    "L5 published levels keep their key set and the cache list is monotone (C02-P1/P2), so a reader holding an old level keeps seeing a complete set "
    "while another thread compacts. NOT decided: that what each query returns is correct (C02's value-level half) – the check shows 'same as when run alone'."
)


def run(ctx: Ctx) -> None:
    model = SharedModel(ctx.repo, "Av")
    ctx.run(rule_l1, ctx, model)
    ctx.run(rule_l2, ctx, model)
    ctx.run(rule_l3, ctx, model)
    ctx.run(rule_l4, ctx, model)
    ctx.run(rule_l5, ctx, model)
    ctx.note("Av.__new__'s check-then-insert on _CLASS_CACHE is not locked: two threads may obtain two distinct instances for equal bases, each complete and private – every query still returns what it would alone (recorded, not a violation)")
    ctx.assume("calls on receivers other than self/cls/Av inside the locked region (Perm, MeshPatt methods) are resolved by name; none of those classes acquires the lock")


def rule_l1(ctx: Ctx, m: SharedModel) -> None:
    shared_sites = [s for s in m.sites if s.kind in (FIELD, ELEM, VAL)]
    if not shared_sites:
        raise AnalysisError("no mutation site of the shared level cache found")
    for s in shared_sites:
        if m.is_protected(s.fi, s.node):
            how = "inside `with` lock" if m.in_locked_region(s.fi, s.node) else "function is lock-held on entry (all call sites hold the lock)"
            ctx.ok("C07-L1", s.fi.where, f"write `{s.target}.{s.op}` on {s.kind}: {how}", s.stmt, s.fi)
        else:
            path = m.unlocked_path(s.fi)
            top = m.repo.funcs.get(path[0]) if path else None
            if top is not None and not m.callers.get(top.where) and top.name.startswith("_") and not top.name.startswith("__"):
                # a private function nobody calls directly: it is reached through a table / getattr / a callback – the lock
                # context of that dynamic call is not known
                raise AnalysisError(f"{top.where}: writes the shared cache but no direct call of it was found (dynamic dispatch?); whether the lock is held is not decided")
            ctx.violation("C07-L1", s.fi, s.stmt, f"the shared level cache is mutated ({s.target} {s.op}) without the class lock held; unlocked path: {' -> '.join(p.split(':')[-1] for p in path)}", path=path, robust=True)
    for fi, w, txt in m.bad_lock_exprs:
        ctx.violation("C07-L2", fi, w, f"`with {txt}` creates a fresh lock for each entry: it excludes nobody", robust=True)
    for fi, st, txt in getattr(m, "unchecked_acquires", []):
        ctx.violation("C07-L2", fi, st, f"`{txt}` can return without the lock (timeout / non-blocking) and its result is ignored: the code after it runs on the shared cache unprotected and then releases a lock it may not hold", robust=True)


def rule_l2(ctx: Ctx, m: SharedModel) -> None:
    repo = ctx.repo
    for fi, w, nm, fresh in m.dynamic_lock_exprs:
        if fresh:
            ctx.violation("C07-L2", fi, w, f"`with {nm}` may hold a lock object created in this very call (check-then-create on a table that is itself filled without synchronisation): two threads can hold two different locks for the same cache, so the region excludes nobody", robust=True)
        else:
            raise AnalysisError(f"{fi.where}: `with {nm}` uses a lock looked up at run time; whether all threads obtain the same object is not decided")
    if m.lock_name is None:
        if not m.dynamic_lock_exprs:
            ctx.violation("C07-L2", m.cls.where, m.cls.node, f"{m.cname} has no class/module-level lock bound once; the shared level cache is unprotected", file=m.cls.module.relpath, robust=True)
        return
    # bound exactly once
    rebinds = []
    for fi in repo.all_funcs():
        for node in walk_no_nested(fi.node):
            if isinstance(node, (ast.Assign, ast.AugAssign, ast.AnnAssign)):
                for t in (node.targets if isinstance(node, ast.Assign) else [node.target]):
                    ch = attr_chain(t)
                    if ch and ch[-1] == m.lock_name:
                        rebinds.append((fi, node))
    for fi, node in rebinds:
        ctx.violation("C07-L2", fi, node, f"the lock {m.lock_name} is rebound at run time: threads may hold different lock objects", robust=True)
    if not m.locked_regions:
        # no acquisition at all: L1 reports the writes; state it here too
        ctx.violation("C07-L2", m.cls.where, m.lock_node, f"the lock {m.lock_name} is never acquired", file=m.cls.module.relpath, robust=True)
        return
    if not rebinds:
        ctx.ok("C07-L2", m.cls.where, f"{m.lock_name} bound once at class/module level to {m.lock_kind}(); acquired in {sorted(w.split(':')[-1] for w in m.locked_regions)}")


def rule_l3(ctx: Ctx, m: SharedModel) -> None:
    if m.lock_name is None:
        return
    if m.lock_kind == "RLock":
        ctx.ok("C07-L3", m.cls.where, "re-entrant lock: re-entry cannot deadlock")
        return
    checked = 0
    # every call made while the lock is held (lexically or by summary)
    for fi in m.funcs:
        self_n = m._self_name(fi)
        for node in walk_no_nested(fi.node):
            held = m.is_protected(fi, node)
            if not held:
                continue
            if isinstance(node, ast.Call):
                cn = call_name(node)
                if cn and len(cn) == 2 and cn[0] in (self_n, "cls", m.cname, "self"):
                    callee = ctx.repo.method(m.cname, cn[1])
                    if callee is not None and callee in m.funcs:
                        checked += 1
                        path = m.reaches_acquirer(callee)
                        if path:
                            ctx.violation("C07-L3", fi, node, f"while holding the non-reentrant lock, {unparse(node.func)}() reaches {path[-1].split(':')[-1]} which acquires it again: self-deadlock", path=[fi.where] + path, robust=True)
            if isinstance(node, ast.Compare) and any(isinstance(op, (ast.In, ast.NotIn)) for op in node.ops):
                for comp in node.comparators:
                    if isinstance(comp, ast.Name) and comp.id == self_n:
                        callee = ctx.repo.method(m.cname, "__contains__")
                        if callee is not None:
                            checked += 1
                            path = m.reaches_acquirer(callee)
                            if path:
                                ctx.violation("C07-L3", fi, node, f"`in {self_n}` while holding the non-reentrant lock reaches {path[-1].split(':')[-1]}: self-deadlock", path=[fi.where] + path, robust=True)
    ctx.ok("C07-L3", m.cls.where, f"{checked} self/cls/Av call(s) made under the lock; none reaches an acquirer ({sorted(a.split(':')[-1] for a in m.acquirers())})")


def rule_l4(ctx: Ctx, m: SharedModel) -> None:
    """Unlocked reads of the shared field."""
    found = 0
    for fi in m.funcs:
        self_n = m._self_name(fi)
        if self_n is None:
            continue
        for node in walk_no_nested(fi.node):
            ch = attr_chain(node)
            if not (isinstance(node, ast.Attribute) and ch and len(ch) == 2 and ch[0] == self_n and ch[1] in m.fields and isinstance(node.ctx, ast.Load)):
                continue
            if m.is_protected(fi, node):
                continue
            top_fi = fi
            while top_fi.parent is not None:
                top_fi = top_fi.parent
            if not m.callers.get(top_fi.where) and top_fi.name.startswith("_") and not top_fi.name.startswith("__"):
                raise AnalysisError(f"{top_fi.where}: touches the shared cache but no direct call of it was found (dynamic dispatch?); whether the lock is held is not decided")
            found += 1
            # must be ``self.cache[idx]`` (load) dominated by a locked ensure call with the same idx
            parent = _parent(fi.node, node)
            if not (isinstance(parent, ast.Subscript) and parent.value is node and isinstance(parent.ctx, ast.Load) and not isinstance(parent.slice, ast.Slice)):
                ctx.violation("C07-L4", fi, m.stmt_of(fi, node), f"unlocked access to the shared cache that is not a plain index load: `{unparse(parent)[:60]}` may observe the list while another thread grows or compacts it", robust=True)
                continue
            idx = unparse(parent.slice)
            stmt = m.stmt_of(fi, node)
            dom = dominated_by_locked_ensure(m, fi, stmt, idx)
            if dom is None:
                raise AnalysisError(f"{fi.where}: the unlocked read cache[{idx}] follows a locked ensure call whose argument is written differently; whether it ensures this index is not decided")
            if dom:
                ctx.ok("C07-L4", fi.where, f"unlocked index load cache[{idx}] is dominated by a locked ensure call for `{idx}`", stmt, fi)
            else:
                ctx.violation("C07-L4", fi, stmt, f"unlocked read cache[{idx}] is not preceded on every path by a locked ensure call for `{idx}`: the level may not exist yet or the index may be stale", robust=True)
    if found == 0:
        ctx.ok("C07-L4", m.cls.where, "no access to the shared cache outside the lock")


def _parent(root: ast.AST, target: ast.AST) -> Optional[ast.AST]:
    for node in ast.walk(root):
        for child in ast.iter_child_nodes(node):
            if child is target:
                return node
    return None


def _plain_index(e: ast.AST) -> bool:
    """names, integer constants and +/- of them: an index whose spelling can be compared with another one"""
    return all(isinstance(n, (ast.Name, ast.Constant, ast.BinOp, ast.UnaryOp, ast.Add, ast.Sub, ast.USub, ast.Load)) for n in ast.walk(e))


def dominated_by_locked_ensure(m: SharedModel, fi: FuncInfo, stmt: ast.stmt, idx: str) -> Optional[bool]:
    """``stmt`` is a top-level statement of fi (or nested in straight-line code) preceded, in
    the same block, by ``with LOCK: <call that (transitively) grows the cache>(idx)`` and idx
    is not reassigned in between."""
    body = fi.body
    if stmt not in body:
        return False
    pos = body.index(stmt)
    ensured_at = None
    other_ensure = False
    for i in range(pos - 1, -1, -1):
        st = body[i]
        # reassignment of a name used in idx
        names = {n.id for n in ast.walk(ast.parse(idx, mode="eval")) if isinstance(n, ast.Name)}
        for sub in ast.walk(st):
            if isinstance(sub, ast.Name) and isinstance(sub.ctx, ast.Store) and sub.id in names:
                return False
        origin = {getattr(r, "_origin", r): r for r in m.locked_regions.get(fi.where, [])}
        if st in origin:
            for sub in ast.walk(origin[st]):
                if isinstance(sub, ast.Call):
                    cn = call_name(sub)
                    if cn and len(cn) == 2:
                        callee = m.repo.method(m.cname, cn[1])
                        if callee is not None and grows_cache(m, callee):
                            if any(unparse(a) == idx for a in list(sub.args) + [k.value for k in sub.keywords]):
                                ensured_at = i
                            elif not all(_plain_index(a) for a in list(sub.args) + [k.value for k in sub.keywords]):
                                other_ensure = True
            if ensured_at is not None:
                return True
        elif isinstance(st, ast.Expr) and isinstance(st.value, ast.Call):
            # a call to a function that itself ensures under the lock
            cn = call_name(st.value)
            if cn and len(cn) == 2:
                callee = m.repo.method(m.cname, cn[1])
                if callee is not None and callee.where in m.acquirers() and grows_cache(m, callee):
                    if any(unparse(a) == idx for a in list(st.value.args) + [k.value for k in st.value.keywords]):
                        return True
                    if not all(_plain_index(a) for a in list(st.value.args) + [k.value for k in st.value.keywords]):
                        other_ensure = True
    # a locked ensure call exists, but its argument is not a plain index expression that could be compared: not decided here
    return None if other_ensure else False


def grows_cache(m: SharedModel, fi: FuncInfo, seen: Optional[Set[str]] = None) -> bool:
    seen = seen or set()
    if fi.where in seen:
        return False
    seen.add(fi.where)
    if any(s.fi is fi and s.kind == FIELD and s.op in GROWTH for s in m.sites):
        return True
    for callee_where, lst in m.callers.items():
        if any(c is fi for c, _n, _l in lst):
            if grows_cache(m, m.repo.funcs[callee_where], seen):
                return True
    return False


# ------------------------------------------------------------------ P1 / P2 (shared with C02)


def key_preserving_copy(m: SharedModel, fi: FuncInfo, target: ast.Subscript, value: ast.AST) -> bool:
    """``{k: <v> for k in self.cache[i]}`` (or .keys()/.items() first component), no filter."""
    if isinstance(value, ast.Call) and unparse(value.func) == "dict.fromkeys" and 1 <= len(value.args) <= 2 and unparse(value.args[0]) == unparse(target) \
            and (len(value.args) == 1 or (isinstance(value.args[1], ast.Constant))):
        return True  # same keys in the same order, values reset
    if not isinstance(value, ast.DictComp) or len(value.generators) != 1:
        return False
    g = value.generators[0]
    if g.ifs:
        return False
    it = g.iter
    src = it
    first = g.target
    if isinstance(it, ast.Call) and isinstance(it.func, ast.Attribute) and it.func.attr in ("keys", "items") and not it.args:
        src = it.func.value
        if it.func.attr == "items":
            if not (isinstance(g.target, ast.Tuple) and len(g.target.elts) == 2):
                return False
            first = g.target.elts[0]
    if unparse(src) != unparse(target):
        return False
    return isinstance(first, ast.Name) and isinstance(value.key, ast.Name) and value.key.id == first.id


def replacement_verdict(m: SharedModel, fi: FuncInfo, target: ast.Subscript, value: ast.AST) -> str:
    """'copy': the stored value is a key-preserving copy of what was there (one level, or elementwise for a slice / slice object);
    'other': positively something else (an empty or filtered dict, a copy of another level, a literal); 'unknown' otherwise."""
    if key_preserving_copy(m, fi, target, value):
        return "copy"
    # elementwise:  cache[S] = [copy(level) for level in cache[S]]
    if isinstance(value, (ast.ListComp, ast.GeneratorExp)) and len(value.generators) == 1 and not value.generators[0].ifs and isinstance(value.generators[0].target, ast.Name) \
            and unparse(value.generators[0].iter) == unparse(target):
        v = value.generators[0].target.id
        fake_target = ast.parse(v, mode="eval").body
        if key_preserving_copy(m, fi, fake_target, value.elt):
            return "copy"
        return "unknown"
    if isinstance(value, ast.Dict) and not value.keys:
        return "other"
    if isinstance(value, (ast.List, ast.Tuple)) and not value.elts:
        return "other"
    if isinstance(value, ast.DictComp) and len(value.generators) == 1:
        g = value.generators[0]
        src = g.iter.func.value if isinstance(g.iter, ast.Call) and isinstance(g.iter.func, ast.Attribute) and g.iter.func.attr in ("keys", "items") else g.iter
        if g.ifs and unparse(src) == unparse(target):
            return "other"  # a filtered copy loses members
        if isinstance(src, ast.Subscript) and isinstance(target, ast.Subscript) and unparse(src.value) == unparse(target.value) and unparse(src) != unparse(target) and not g.ifs:
            return "other"  # a copy of a different level
    return "unknown"


def rule_p1_p2(ctx: Ctx, m: SharedModel, rule_p1: str, rule_p2: str) -> None:
    for s in m.sites:
        if s.kind == ELEM:
            # a published level: key set must not change
            if s.op in ("store", "del", "aug", "slice-store") or s.op in KEY_MUTATORS or s.op in ("add", "discard", "remove", "insert", "append", "extend", "sort", "reverse"):
                ctx.violation(rule_p1, s.fi, s.stmt, f"key set of a published level ({s.target}) is changed in place ({s.op}): an iterator handed out by of_length() would raise RuntimeError or silently lose members", robust=True)
            else:
                ctx.ok(rule_p1, s.fi.where, f"{s.target}.{s.op}", s.stmt, s.fi)
        elif s.kind == VAL:
            ctx.ok(rule_p1, s.fi.where, f"only the *value* list of a published level is touched ({s.target}.{s.op}); the key set is unchanged", s.stmt, s.fi)
        elif s.kind == FRESH:
            # must precede publication
            pub = publication_of(m, s.fi, s.target)
            if pub is None:
                ctx.ok(rule_p1, s.fi.where, f"local dict {s.target} is never published", s.stmt, s.fi)
            elif (s.stmt.lineno, s.stmt.col_offset) < (pub.lineno, pub.col_offset) and same_block_order(s.fi, s.stmt, pub):
                ctx.ok(rule_p1, s.fi.where, f"keys are inserted into {s.target} before it is published to the cache", s.stmt, s.fi)
            else:
                ctx.violation(rule_p1, s.fi, s.stmt, f"{s.target} is modified after it has been published to the shared cache", robust=True)
        elif s.kind == FIELD:
            if s.op in GROWTH:
                ctx.ok(rule_p2, s.fi.where, f"cache list grows by {s.op}", s.stmt, s.fi)
            elif s.op in ("store", "slice-store") and isinstance(s.stmt, ast.Assign) and isinstance(s.node, ast.Subscript):
                verdict = replacement_verdict(m, s.fi, s.node, s.stmt.value)
                if verdict == "copy":
                    ctx.ok(rule_p2, s.fi.where, "levels are replaced by key-preserving copies (compaction)", s.stmt, s.fi)
                elif verdict == "other":
                    ctx.violation(rule_p2, s.fi, s.stmt, f"a published level is replaced by `{unparse(s.stmt.value)[:70]}`, which is not a key-preserving copy of the same level: going back to that length would see a different set", robust=True)
                else:
                    raise AnalysisError(f"{s.fi.where}: `{unparse(s.stmt)[:80]}` replaces published levels; whether the replacement keeps their key sets is not recognised")
            elif s.op in ("del", "pop", "clear", "remove", "insert", "reverse", "sort"):
                ctx.violation(rule_p2, s.fi, s.stmt, f"the cache list is not monotone: {s.target} {s.op}", robust=True)
            else:
                raise AnalysisError(f"{s.fi.where}: `{unparse(s.stmt)[:80]}` changes the cache list ({s.op}); monotonicity not decided")


def publication_of(m: SharedModel, fi: FuncInfo, name: str) -> Optional[ast.stmt]:
    for s in m.sites:
        if s.fi is fi and s.kind == FIELD and s.op in GROWTH and isinstance(s.node, ast.Call):
            if any(isinstance(a, ast.Name) and a.id == name for a in s.node.args):
                return s.stmt
    return None


def same_block_order(fi: FuncInfo, first: ast.stmt, second: ast.stmt) -> bool:
    """``second`` is in a block that (transitively) contains ``first`` at an earlier position."""
    for node in ast.walk(fi.node):
        for field in ("body", "orelse"):
            lst = getattr(node, field, None)
            if isinstance(lst, list) and second in lst:
                pos = lst.index(second)
                for st in lst[:pos]:
                    if any(sub is first for sub in ast.walk(st)):
                        return True
    return False


def rule_l5(ctx: Ctx, m: SharedModel) -> None:
    rule_p1_p2(ctx, m, "C07-L5", "C07-L5")


# ------------------------------------------------------------------ thorough tier


def _wrap_body_in_lock(qual: str):
    def edit(tree: ast.Module) -> None:
        from ..selftest import Skip, find_scope

        fn = find_scope(tree, qual)
        if not isinstance(fn, ast.FunctionDef):
            raise Skip(qual)
        lock = ast.parse("with Av._CACHE_LOCK:\n    pass").body[0]
        lock.body = fn.body
        fn.body = [lock]

    return edit


GENERIC_FILES = ['permuta/perm_sets/permset.py']


def variants():
    from ..selftest import generic_equiv, generic_silent

    return _variants() + generic_silent(GENERIC_FILES) + generic_equiv(GENERIC_FILES)


def _variants():
    from ..selftest import V, custom, insert_stmt, reformat_only, rename_local, replace_expr, replace_stmt, unwrap_with

    PS = "permuta/perm_sets/permset.py"
    return [
        V("lock-removed", unwrap_with(PS, "Av._get_level", "with Av._CACHE_LOCK:"), "fire", "C07-L1"),
        V("lock-narrowed-empty", replace_stmt(PS, "Av._get_level", "with Av._CACHE_LOCK: ...", "with Av._CACHE_LOCK:\n    pass\nself._ensure_level(level_number)"), "fire", "C07-L1"),
        V("ensure-from-public-method", insert_stmt(PS, "Av.count", "return len(self._get_level(length))", "self._ensure_level(length)", "before"), "fire", "C07-L1"),
        V("fresh-lock-each-time", replace_expr(PS, "Av._get_level", "Av._CACHE_LOCK", "multiprocessing.Lock()"), "fire", "C07-L"),
        V("per-basis-lock-table-lazy", [replace_stmt(PS, "Av", "_CACHE_LOCK = multiprocessing.Lock()", "_CACHE_LOCKS: ClassVar[dict] = {}"), replace_stmt(PS, "Av._get_level", "with Av._CACHE_LOCK: ...", "lock = Av._CACHE_LOCKS.get(self.basis)\nif lock is None:\n    lock = Av._CACHE_LOCKS[self.basis] = multiprocessing.Lock()\nwith lock:\n    self._ensure_level(level_number)")], "fire", "C07-L2"),
        V("lock-rebound", insert_stmt(PS, "Av.clear_cache", "cls._CLASS_CACHE = {}", "cls._CACHE_LOCK = multiprocessing.Lock()", "after"), "fire", "C07-L2"),
        V("reentry-count-under-lock", insert_stmt(PS, "Av._ensure_level", "start = max(0, len(self.cache) - 2)", "self.count(0)", "after"), "fire", "C07-L3"),
        V("reentry-in-self", insert_stmt(PS, "Av._ensure_level_mesh_pattern_basis", "self.cache.extend(({p: None for p in Perm.of_length(i) if p.avoids(*self.basis)} for i in range(len(self.cache), level_number + 1)))", "assert Perm() in self", "before"), "fire", "C07-L3"),
        V("read-before-lock", replace_stmt(PS, "Av._get_level", "with Av._CACHE_LOCK: ...", "if level_number < len(self.cache):\n    return self.cache[level_number]\nwith Av._CACHE_LOCK:\n    self._ensure_level(level_number)"), "fire", "C07-L4"),
        V("read-other-index", replace_expr(PS, "Av._get_level", "self.cache[level_number]", "self.cache[level_number - 1]"), "fire", "C07-L4"),
        V("unlocked-len-in-public", replace_stmt(PS, "Av.count", "return len(self._get_level(length))", "if length < len(self.cache):\n    return len(self.cache[length])\nreturn len(self._get_level(length))"), "fire", "C07-L4"),
        V("compaction-filters", replace_expr(PS, "Av._ensure_level", "{perm: None for perm in self.cache[i]}", "{perm: None for perm in self.cache[i] if len(perm) > 3}"), "fire", "C07-L5"),
        V("compaction-in-place-clear", replace_stmt(PS, "Av._ensure_level", "self.cache[i] = {perm: None for perm in self.cache[i]}", "self.cache[i].clear()"), "fire", "C07-L5"),
        V("compaction-pops-levels", replace_stmt(PS, "Av._ensure_level", "self.cache[i] = {perm: None for perm in self.cache[i]}", "self.cache.pop(0)"), "fire", "C07-L5"),
        V("publish-then-fill", [replace_stmt(PS, "Av._ensure_level_classical_pattern_basis", "self.cache.append(new_level)", ""),
                                insert_stmt(PS, "Av._ensure_level_classical_pattern_basis", "last_level = self.cache[-1]", "self.cache.append(new_level)", "after")], "fire", "C07-L5"),
        V("last-level-key-insert", insert_stmt(PS, "Av._ensure_level_classical_pattern_basis", "check_length = nplusone in lengths", "last_level[Perm()] = None", "after"), "fire", "C07-L5"),
        V("lock-acquire-with-timeout-unchecked", replace_stmt(PS, "Av._get_level", "with Av._CACHE_LOCK: ...", "Av._CACHE_LOCK.acquire(timeout=5.0)\ntry:\n    self._ensure_level(level_number)\nfinally:\n    Av._CACHE_LOCK.release()"), "fire", "C07-L2"),
        V("lock-acquire-nonblocking-unchecked", replace_stmt(PS, "Av._get_level", "with Av._CACHE_LOCK: ...", "Av._CACHE_LOCK.acquire(False)\ntry:\n    self._ensure_level(level_number)\nfinally:\n    Av._CACHE_LOCK.release()"), "fire", "C07-L2"),
        # silent
        V("lock-acquire-blocking-try-finally", replace_stmt(PS, "Av._get_level", "with Av._CACHE_LOCK: ...", "Av._CACHE_LOCK.acquire(blocking=True)\ntry:\n    self._ensure_level(level_number)\nfinally:\n    Av._CACHE_LOCK.release()"), "silent"),
        V("reformat", reformat_only(PS), "silent"),
        V("lock-moved-into-callee", [replace_stmt(PS, "Av._get_level", "with Av._CACHE_LOCK: ...", "self._ensure_level(level_number)"),
                                     custom(PS, _wrap_body_in_lock("Av._ensure_level"))], "silent", note="the lock taken by the callee around the whole ensure step is the same discipline"),
        V("lock-via-cls", replace_expr(PS, "Av._get_level", "Av._CACHE_LOCK", "self._CACHE_LOCK"), "silent"),
        V("read-inside-lock", replace_stmt(PS, "Av._get_level", "with Av._CACHE_LOCK: ...", "with Av._CACHE_LOCK:\n    self._ensure_level(level_number)\n    level = self.cache[level_number]\nreturn level"), "silent", note="reading the level while still holding the lock is fine"),
        V("rename-level-number", rename_local(PS, "Av._get_level", "level_number", "n"), "silent"),
        V("compaction-via-keys", replace_expr(PS, "Av._ensure_level", "{perm: None for perm in self.cache[i]}", "{perm: None for perm in self.cache[i].keys()}"), "silent"),
        V("rlock", replace_expr(PS, "Av", "multiprocessing.Lock()", "threading.RLock()"), "silent"),
    ]
