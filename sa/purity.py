"""E3 – effect inference: is the value computed by a function a function of its
arguments only (no reads of mutable global/class state, no writes visible outside,
no I/O, randomness, time or identity)?"""

from __future__ import annotations

import ast
from typing import Dict, List, Optional, Set, Tuple

from .core import AnalysisError, FuncInfo, ModuleInfo, Repo, attr_chain, call_name, unparse, walk_no_nested

PURE_BUILTINS = {
    "len", "range", "enumerate", "zip", "sorted", "reversed", "tuple", "list", "set", "frozenset", "dict", "sum", "min", "max", "any",
    "all", "abs", "int", "str", "bool", "map", "filter", "iter", "next", "isinstance", "divmod", "bin", "repr", "float", "round",
    "issubclass", "type", "callable", "getattr", "hasattr", "super", "slice", "ord", "chr", "pow", "hash", "NotImplementedError",
    "ValueError", "TypeError", "AssertionError", "StopIteration", "KeyError", "IndexError", "Fraction",
}
PURE_MODULES = {"itertools", "operator", "collections", "math", "functools", "bisect", "fractions", "numbers", "typing", "re"}
IMPURE_NAMES = {"id", "open", "input", "print", "exec", "eval", "globals", "vars", "locals", "setattr", "delattr", "__import__"}
IMPURE_MODULES = {"random", "time", "os", "sys", "datetime", "uuid", "secrets", "pathlib", "json", "pickle", "shutil", "tempfile", "subprocess", "signal", "webbrowser"}
LOCAL_MUTATORS = {"append", "appendleft", "extend", "insert", "pop", "popleft", "remove", "clear", "update", "setdefault", "popitem", "sort", "reverse",
                  "add", "discard", "rotate", "extendleft"}


class Effects:
    def __init__(self) -> None:
        self.reasons: List[Tuple[FuncInfo, ast.AST, str]] = []
        self.dynamic: List[str] = []
        self.callees: Set[str] = set()

    @property
    def pure(self) -> bool:
        return not self.reasons


class Purity:
    def __init__(self, repo: Repo, accept_io: Optional[Set[str]] = None, follow_dynamic: bool = True):
        self.follow_dynamic = follow_dynamic
        self.repo = repo
        self.cache: Dict[str, Effects] = {}
        self.active: Set[str] = set()
        self.accept_io = accept_io or set()

    def mutable_global(self, mod: ModuleInfo, name: str) -> bool:
        val = mod.assigns.get(name)
        if val is None:
            return False
        return _is_mutable_expr(val)

    def effects(self, fi: FuncInfo) -> Effects:
        if fi.where in self.cache:
            return self.cache[fi.where]
        eff = Effects()
        if fi.where in self.active:
            return eff  # recursion: assume the fixpoint of the callees examined so far
        self.active.add(fi.where)
        try:
            self._scan(fi, eff)
        finally:
            self.active.discard(fi.where)
        self.cache[fi.where] = eff
        return eff

    def _locals(self, fi: FuncInfo) -> Set[str]:
        out: Set[str] = set()
        cur: Optional[FuncInfo] = fi
        while cur is not None:
            a = cur.node.args
            for x in a.posonlyargs + a.args + a.kwonlyargs:
                out.add(x.arg)
            if a.vararg:
                out.add(a.vararg.arg)
            if a.kwarg:
                out.add(a.kwarg.arg)
            for n in ast.walk(cur.node):
                if isinstance(n, ast.Name) and isinstance(n.ctx, ast.Store):
                    out.add(n.id)
                elif isinstance(n, ast.FunctionDef) and n is not cur.node:
                    out.add(n.name)
                elif isinstance(n, ast.arg):
                    out.add(n.arg)
            cur = cur.parent
        return out

    def _scan(self, fi: FuncInfo, eff: Effects) -> None:
        repo, mod = self.repo, fi.module
        local = self._locals(fi)
        self_name = fi.params[0] if (fi.cls is not None and fi.params and not fi.is_static) else None
        for node in walk_no_nested(fi.node):
            if isinstance(node, (ast.Global, ast.Nonlocal)):
                eff.reasons.append((fi, node, f"declares {', '.join(node.names)} global/nonlocal"))
            # stores
            if isinstance(node, (ast.Assign, ast.AugAssign, ast.AnnAssign, ast.Delete)):
                tgts = node.targets if isinstance(node, (ast.Assign, ast.Delete)) else [node.target]
                for t in tgts:
                    for leaf in ([t] if not isinstance(t, (ast.Tuple, ast.List)) else t.elts):
                        base = leaf
                        while isinstance(base, (ast.Attribute, ast.Subscript)):
                            base = base.value
                        if isinstance(leaf, (ast.Attribute, ast.Subscript)) and isinstance(base, ast.Name):
                            if base.id == self_name and isinstance(leaf, ast.Attribute):
                                eff.reasons.append((fi, node, f"stores attribute {unparse(leaf)} on the receiver"))
                            elif base.id not in local or base.id in fi.params:
                                if base.id in fi.params and base.id != self_name:
                                    eff.reasons.append((fi, node, f"mutates its argument {base.id}"))
                                elif base.id not in local:
                                    eff.reasons.append((fi, node, f"writes non-local state {unparse(leaf)}"))
            if isinstance(node, ast.Name) and isinstance(node.ctx, ast.Load) and node.id not in local:
                if self.mutable_global(mod, node.id):
                    eff.reasons.append((fi, node, f"reads mutable module-level state {node.id}"))
            if isinstance(node, ast.Attribute) and isinstance(node.ctx, ast.Load):
                ch = attr_chain(node)
                if ch and len(ch) == 2 and ch[0] not in local:
                    r = repo.resolve_name(mod, ch[0])
                    from .core import ClassInfo

                    if isinstance(r, ClassInfo):
                        for ci in repo.mro(r.name):
                            if ch[1] in ci.assigns and _is_mutable_expr(ci.assigns[ch[1]]):
                                eff.reasons.append((fi, node, f"reads mutable class-level state {ch[0]}.{ch[1]}"))
                                break
            if isinstance(node, ast.Call):
                self._call(fi, node, eff, local, self_name)

    def _call(self, fi: FuncInfo, node: ast.Call, eff: Effects, local: Set[str], self_name: Optional[str]) -> None:
        cn = call_name(node)
        if cn is None:
            return
        if len(cn) == 1:
            name = cn[0]
            if name in local:
                nested = fi.nested.get(name)
                if nested is not None:
                    self._merge(fi, node, eff, nested)
                return
            if name in IMPURE_NAMES and name not in self.accept_io:
                eff.reasons.append((fi, node, f"calls {name}()"))
                return
            if name in PURE_BUILTINS:
                return
        if cn[0] in IMPURE_MODULES and cn[0] not in local:
            src = fi.module.imports.get(cn[0])
            if src is not None and src[1] is None:
                eff.reasons.append((fi, node, f"calls {'.'.join(cn)} (I/O, randomness, time or process state)"))
                return
        if cn[0] in PURE_MODULES and cn[0] not in local:
            return
        if len(cn) == 2 and cn[0] in ("tuple", "frozenset", "object", "int", "str", "dict", "list", "set", "float", "bytes", "type") and cn[0] not in local:
            return  # a builtin type's own method (tuple.__new__, tuple.__eq__, dict.fromkeys, ...)
        # names imported from impure modules (from random import randint)
        if len(cn) == 1:
            imp = fi.module.imports.get(cn[0])
            if imp is not None and imp[0].split(".")[0] in IMPURE_MODULES:
                eff.reasons.append((fi, node, f"calls {imp[0]}.{imp[1]}"))
                return
            if imp is not None and imp[0].split(".")[0] in PURE_MODULES:
                return
        cands, exact = self.repo.resolve_call(fi, node)
        if cands and exact:
            for c in cands:
                if c.name in ("__init__", "__new__") and c.cls is not None:
                    # constructing a fresh object: the constructor may store on its own new object
                    sub = self.effects(c)
                    for (f2, n2, why) in sub.reasons:
                        if why.startswith("stores attribute"):
                            continue
                        eff.reasons.append((f2, n2, why))
                    continue
                self._merge(fi, node, eff, c)
            return
        if len(cn) >= 2 and cn[0] in local and cn[-1] in LOCAL_MUTATORS:
            base = cn[0]
            if base in fi.params and base != self_name:
                eff.reasons.append((fi, node, f"mutates its argument {base} ({cn[-1]})"))
            elif base == self_name:
                eff.reasons.append((fi, node, f"mutates the receiver ({'.'.join(cn)})"))
            return
        if cands and not exact:
            # method on a local/unknown receiver: by-name candidates; builtin container methods are fine
            meth = cn[-1]
            if meth in BUILTIN_PURE_METHODS and len(cands) <= 0:
                return
            eff.dynamic.append(f"{fi.where}: {'.'.join(cn)} -> {[c.where for c in cands][:3]}")
            if self.follow_dynamic:
                for c in cands:
                    self._merge(fi, node, eff, c)
            return
        # unresolved: builtin container / tuple methods on locals are pure reads
        if len(cn) >= 2 and cn[-1] in BUILTIN_PURE_METHODS:
            return
        if len(cn) >= 2 and cn[0] in local:
            return
        if len(cn) == 1:
            r = self.repo.resolve_name(fi.module, cn[0])
            if r is None:
                eff.dynamic.append(f"{fi.where}: call to unresolved name {cn[0]} assumed pure")
                return

    def _merge(self, fi: FuncInfo, node: ast.AST, eff: Effects, callee: FuncInfo) -> None:
        eff.callees.add(callee.where)
        sub = self.effects(callee)
        for (f2, n2, why) in sub.reasons:
            if why.startswith("stores attribute") and callee.cls is not None and callee.name in ("__init__", "__new__"):
                continue
            eff.reasons.append((f2, n2, why))
        eff.dynamic.extend(sub.dynamic)


BUILTIN_PURE_METHODS = {"get", "items", "keys", "values", "index", "count", "join", "split", "strip", "startswith", "endswith", "copy",
                        "intersection", "union", "difference", "issubset", "issuperset", "isdisjoint", "find", "rfind", "format",
                        "__lt__", "__le__", "__eq__", "__hash__", "__len__", "__next__", "__iter__", "bit_length", "most_common"}


def _is_mutable_expr(val: ast.AST) -> bool:
    if isinstance(val, (ast.Dict, ast.List, ast.Set, ast.DictComp, ast.ListComp, ast.SetComp)):
        return True
    if isinstance(val, ast.Call):
        cn = call_name(val)
        if cn and cn[-1] in ("dict", "list", "set", "defaultdict", "deque", "OrderedDict", "Counter"):
            return True
    return False
