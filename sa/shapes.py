"""Reference shapes: the canonical token sequence of every function of the reviewed tree (reference/shapes.json).

Used only to *withhold* an accusation.  A rule that compares program text ("the statement after the loop is not
`return acc`") has evidence of a defect when the function it looks at is the reviewed function with a small edit; on a
function that has been restructured since, the same mismatch is no evidence at all.  ``Ctx.violation`` therefore asks
``trusted(fi)`` unless the caller states that its evidence is structural or semantic (``robust=True``), and reports
*undecided* instead of a violation when the function is far from its reviewed shape or was not in the reviewed tree."""

from __future__ import annotations

import ast
import os
import copy
import difflib
import json
import re
from pathlib import Path
from typing import Dict, List, Optional, Tuple

REF_FILE = Path(__file__).resolve().parent.parent / "reference" / "shapes.json"
_TOKEN = re.compile(r"[A-Za-z_][A-Za-z_0-9]*|\d+|\S")


def tokens_of(fn_node: ast.AST, numbered: bool = False) -> List[str]:
    """canonical tokens of a function: decorators, annotations and docstring dropped, parameters and locals numbered in order
    of first appearance (renaming them changes nothing)"""
    node = copy.deepcopy(fn_node)
    if isinstance(node, (ast.FunctionDef, ast.AsyncFunctionDef)):
        node.decorator_list = []
        node.returns = None
        for a in node.args.posonlyargs + node.args.args + node.args.kwonlyargs + ([node.args.vararg] if node.args.vararg else []) + ([node.args.kwarg] if node.args.kwarg else []):
            a.annotation = None
        if node.body and isinstance(node.body[0], ast.Expr) and isinstance(node.body[0].value, ast.Constant) and isinstance(node.body[0].value.value, str):
            node.body = node.body[1:] or [ast.Pass()]
        if numbered:
            _number_locals(node)
    ast.fix_missing_locations(node)
    return _TOKEN.findall(ast.unparse(node))


def _number_locals(fn: ast.AST) -> None:
    bound = set()
    for n in ast.walk(fn):
        if isinstance(n, ast.arg):
            bound.add(n.arg)
        elif isinstance(n, ast.Name) and isinstance(n.ctx, (ast.Store, ast.Del)):
            bound.add(n.id)
        elif isinstance(n, (ast.FunctionDef, ast.AsyncFunctionDef)) and n is not fn:
            bound.add(n.name)
    for n in ast.walk(fn):
        if isinstance(n, (ast.Global, ast.Nonlocal)):
            bound -= set(n.names)
    order: Dict[str, str] = {}

    class R(ast.NodeVisitor):  # source order = field order of the tree
        def visit_arg(self, n):
            if n.arg in bound:
                n.arg = order.setdefault(n.arg, f"v{len(order)}")

        def visit_Name(self, n):
            if n.id in bound:
                n.id = order.setdefault(n.id, f"v{len(order)}")

        def visit_FunctionDef(self, n):
            if n is not fn and n.name in bound:
                n.name = order.setdefault(n.name, f"v{len(order)}")
            self.generic_visit(n)

        def visit_Call(self, n):
            self.generic_visit(n)
            for k in n.keywords:  # keyword names of calls of local functions are left alone (rare)
                pass

    R().visit(fn)


def distance(a: List[str], b: List[str]) -> int:
    """tokens of the longer side outside the common blocks"""
    sm = difflib.SequenceMatcher(a=a, b=b, autojunk=False)
    same = sum(m.size for m in sm.get_matching_blocks())
    return max(len(a), len(b)) - same


_CACHE: Optional[Dict[str, List[str]]] = None


def reference() -> Dict[str, List[str]]:
    global _CACHE
    if _CACHE is None:
        _CACHE = json.loads(REF_FILE.read_text())["functions"] if REF_FILE.exists() else {}
    return _CACHE


_CACHE_N: Optional[Dict[str, List[str]]] = None


def reference_numbered() -> Dict[str, List[str]]:
    global _CACHE_N
    if _CACHE_N is None:
        _CACHE_N = json.loads(REF_FILE.read_text()).get("functions_numbered", {}) if REF_FILE.exists() else {}
    return _CACHE_N


def allowed(ref_len: int) -> int:
    return int(os.environ.get("SA_GATE_TOKENS", "0")) or 10


def hunks(a: List[str], b: List[str]) -> List[int]:
    """sizes of the contiguous differing regions between two token sequences"""
    sm = difflib.SequenceMatcher(a=a, b=b, autojunk=False)
    return [max(i2 - i1, j2 - j1) for tag, i1, i2, j1, j2 in sm.get_opcodes() if tag != "equal"]


def trusted(where: str, fn_node: ast.AST) -> Tuple[bool, str]:
    """(is the function close enough to its reviewed shape for a textual rule to accuse?, explanation)

    Close enough = the reviewed function with a point change: at most two contiguous edits (of at most max(40, a quarter of
    the function) tokens in all: a dropped conjunct, a replaced expression, a moved statement), or a few scattered tokens
    (at most 10).  The comparison is made on the text as written and again with parameters and locals numbered (so that renaming them does not count); the closer of the two is used.  Everyday restructuring (extracting or inlining locals in
    several places, rewriting a loop, re-ordering independent statements) shows up as three or more edits."""
    ref = reference().get(where)
    if ref is None:
        return False, "it was not part of the reviewed tree"
    hs = hunks(ref, tokens_of(fn_node))
    if len(hs) > 1 and where in reference_numbered():
        # the same comparison with parameters and locals numbered in order of appearance: renaming them is no edit
        hn = hunks(reference_numbered()[where], tokens_of(fn_node, numbered=True))
        if sum(hn) < sum(hs):
            hs = hn
    total = sum(hs)
    if os.environ.get("SA_GATE_TOKENS"):
        ok = total <= allowed(len(ref))
    else:
        ok = total <= allowed(len(ref)) or (len(hs) <= 2 and total <= max(40, len(ref) // 4))
    if ok:
        return True, f"{len(hs)} edit(s), {total} token(s) from the reviewed shape"
    return False, f"{len(hs)} separate edits, {total} tokens, away from the reviewed shape (a textual rule is trusted up to two contiguous edits or 10 scattered tokens)"


_NAMES: Optional[Dict[str, List[str]]] = None


def reviewed_module_names(module: str) -> Optional[List[str]]:
    """module-level names bound in the reviewed tree (None when the module was not part of it / no reference)"""
    global _NAMES
    if _NAMES is None:
        _NAMES = json.loads(REF_FILE.read_text()).get("module_names", {}) if REF_FILE.exists() else {}
    return _NAMES.get(module)


_LOCALS: Optional[Dict[str, List[str]]] = None


def reviewed_locals(where: str) -> Optional[List[str]]:
    """names bound in the function's own scope in the reviewed tree (None: function not reviewed / no reference)"""
    global _LOCALS
    if _LOCALS is None:
        _LOCALS = json.loads(REF_FILE.read_text()).get("locals", {}) if REF_FILE.exists() else {}
    return _LOCALS.get(where)
