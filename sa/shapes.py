"""Reference shapes: the canonical token sequence of every function of the reviewed tree (reference/shapes.json).

Used only to *withhold* an accusation.  A rule that compares program text ("the statement after the loop is not
`return acc`") has evidence of a defect when the function it looks at is the reviewed function with a small edit; on a
function that has been restructured since, the same mismatch is no evidence at all.  ``Ctx.violation`` therefore asks
``trusted(fi)`` unless the caller states that its evidence is structural or semantic (``robust=True``), and reports
*undecided* instead of a violation when the function is far from its reviewed shape or was not in the reviewed tree."""

from __future__ import annotations

import ast
import os
import copy
import difflib
import json
import re
from pathlib import Path
from typing import Dict, List, Optional, Tuple

REF_FILE = Path(__file__).resolve().parent.parent / "reference" / "shapes.json"
_TOKEN = re.compile(r"[A-Za-z_][A-Za-z_0-9]*|\d+|\S")


def tokens_of(fn_node: ast.AST) -> List[str]:
    node = copy.deepcopy(fn_node)
    if isinstance(node, (ast.FunctionDef, ast.AsyncFunctionDef)):
        node.decorator_list = []
        node.returns = None
        for a in node.args.posonlyargs + node.args.args + node.args.kwonlyargs + ([node.args.vararg] if node.args.vararg else []) + ([node.args.kwarg] if node.args.kwarg else []):
            a.annotation = None
        if node.body and isinstance(node.body[0], ast.Expr) and isinstance(node.body[0].value, ast.Constant) and isinstance(node.body[0].value.value, str):
            node.body = node.body[1:] or [ast.Pass()]
    ast.fix_missing_locations(node)
    return _TOKEN.findall(ast.unparse(node))


def distance(a: List[str], b: List[str]) -> int:
    """tokens of the longer side outside the common blocks"""
    sm = difflib.SequenceMatcher(a=a, b=b, autojunk=False)
    same = sum(m.size for m in sm.get_matching_blocks())
    return max(len(a), len(b)) - same


_CACHE: Optional[Dict[str, List[str]]] = None


def reference() -> Dict[str, List[str]]:
    global _CACHE
    if _CACHE is None:
        _CACHE = json.loads(REF_FILE.read_text())["functions"] if REF_FILE.exists() else {}
    return _CACHE


def allowed(ref_len: int) -> int:
    return int(os.environ.get("SA_GATE_TOKENS", "0")) or max(16, ref_len // 4)


def trusted(where: str, fn_node: ast.AST) -> Tuple[bool, str]:
    """(is the function close enough to its reviewed shape for a textual rule to accuse?, explanation)"""
    ref = reference().get(where)
    if ref is None:
        return False, "it was not part of the reviewed tree"
    d = distance(tokens_of(fn_node), ref)
    if d <= allowed(len(ref)):
        return True, f"{d} token(s) from the reviewed shape"
    return False, f"{d} tokens differ from the reviewed shape (a textual rule is trusted up to {allowed(len(ref))})"


_NAMES: Optional[Dict[str, List[str]]] = None


def reviewed_module_names(module: str) -> Optional[List[str]]:
    """module-level names bound in the reviewed tree (None when the module was not part of it / no reference)"""
    global _NAMES
    if _NAMES is None:
        _NAMES = json.loads(REF_FILE.read_text()).get("module_names", {}) if REF_FILE.exists() else {}
    return _NAMES.get(module)
