"""Verdict / evidence / known-findings plumbing shared by every check."""

from __future__ import annotations

import ast
import json
import os
import time
from pathlib import Path
from typing import Any, Dict, List, Optional, Tuple

from .core import AnalysisError, FuncInfo, Repo, norm_text

VERIF = Path(__file__).resolve().parent.parent
EVIDENCE_DIR = VERIF / "evidence"
REPLAY_DIR = EVIDENCE_DIR / "replay"
KNOWN_FILE = VERIF / "known_findings.jsonl"

TRUSTED_BASE = [
    "CPython data model: rich-comparison dispatch and NotImplemented protocol; defining __eq__ without __hash__ sets __hash__ = None",
    "object.__hash__ (and hash(super())) is identity based; tuple/frozenset hash and equality are by value",
    "a dict iterator is invalidated only by a change of the key set; list.append / list[i] are atomic under the GIL",
    "generators, map, filter, zip and itertools objects are one-shot",
    "itertools.permutations(range(n)) is lexicographic; int % 4 is in {0,1,2,3}",
    "the ast module parses the same grammar the library runs under (/venv/bin/python 3.12)",
]


class Finding:
    def __init__(self, prop: str, rule: str, where: str, stmt: str, file: str, line: int, message: str, path: Optional[List[str]] = None):
        self.prop = prop
        self.rule = rule
        self.where = where
        self.stmt = stmt
        self.file = file
        self.line = line
        self.message = message
        self.path = path or []

    @property
    def key(self) -> Tuple[str, str, str, str]:
        return (self.prop, self.rule, self.where, self.stmt)

    def to_json(self) -> Dict[str, Any]:
        return {
            "property": self.prop,
            "rule": self.rule,
            "where": self.where,
            "stmt": self.stmt,
            "file": self.file,
            "line": self.line,
            "message": self.message,
            "path": self.path,
        }

    def __str__(self) -> str:
        return f"[{self.rule}] {self.file}:{self.line} {self.where}: {self.message}  | {self.stmt}"


class Ctx:
    """Collects obligations, findings and notes for one property check."""

    def __init__(self, prop: str, repo: Repo):
        self.prop = prop
        self.repo = repo
        self.obligations: List[Dict[str, Any]] = []
        self.findings: List[Finding] = []
        self.notes: List[str] = []
        self.assumptions: List[str] = []
        self.instances: Dict[str, int] = {}
        self.dynamic: List[str] = []
        self.undecided: List[str] = []

    def run(self, fn, *args, **kwargs):
        """Run one rule; an undecidable rule does not hide what the other rules find."""
        try:
            return fn(*args, **kwargs)
        except AnalysisError as exc:
            self.undecided.append(str(exc))
            return None
        except (IndexError, KeyError, AttributeError, TypeError, ValueError, StopIteration, AssertionError) as exc:
            # a rule met a code shape its pattern matching did not anticipate: that is "not recognised", never a verdict
            import traceback

            tb = traceback.extract_tb(exc.__traceback__)[-1]
            self.undecided.append(f"{getattr(fn, '__name__', 'rule')}: code shape not recognised ({type(exc).__name__}: {exc} at {tb.filename.split('/')[-1]}:{tb.lineno})")
            return None

    # -- obligations -----------------------------------------------------------
    def ok(self, rule: str, where: str, what: str, node: Optional[ast.AST] = None, fi: Optional[FuncInfo] = None) -> None:
        rec = {"rule": rule, "where": where, "what": what, "verdict": "discharged"}
        if fi is not None:
            rec["loc"] = fi.loc(node)
            if node is not None:
                rec["stmt"] = norm_text(node, fi.node)
        self.obligations.append(rec)
        self.instances[rule] = self.instances.get(rule, 0) + 1

    def violation(self, rule: str, fi_or_where, node: Optional[ast.AST], message: str, path: Optional[List[str]] = None, file: Optional[str] = None, tag: Optional[str] = None,
                  robust: bool = False) -> None:
        """``tag``: a name for *what* is wrong, used instead of the normalised statement as the last component of the
        finding's key when the same defect can be written in several shapes (keeps a known finding stable under
        refactoring without hiding a different defect of the same rule in the same function).
        ``robust``: the evidence is structural or semantic (a decision procedure, a path / typestate / ownership analysis,
        evaluated values) and holds however the function is written.  Otherwise the rule compared program text, which is
        evidence only while the function is close to the shape that was reviewed when the rule was written: on a restructured
        function the rule reports *undecided* instead (sa/shapes.py)."""
        if isinstance(fi_or_where, FuncInfo) and (not robust or os.environ.get("SA_GATE_ALL")) and not os.environ.get("SA_NO_SHAPE_GATE"):
            from .shapes import trusted

            ok, why = trusted(fi_or_where.where, fi_or_where.node)
            if not ok:
                raise AnalysisError(f"{fi_or_where.where}: {rule} would report `{message[:140]}` but the function is not in its reviewed shape ({why}); a textual mismatch there is not evidence – undecided")
        if isinstance(fi_or_where, FuncInfo):
            fi = fi_or_where
            where = fi.where
            stmt = norm_text(node, fi.node) if node is not None else fi.qual
            fil = fi.module.relpath
            line = getattr(node, "lineno", fi.node.lineno) if node is not None else fi.node.lineno
        else:
            where = str(fi_or_where)
            stmt = norm_text(node) if node is not None else where
            fil = file or where.split(":")[0]
            line = getattr(node, "lineno", 0) if node is not None else 0
        if tag is not None:
            message = f"{message}  | {stmt}"
            stmt = f"#{tag}"
        f = Finding(self.prop, rule, where, stmt, fil, line, message, path)
        if f.key not in {x.key for x in self.findings}:
            self.findings.append(f)
        self.obligations.append({"rule": rule, "where": where, "what": message, "verdict": "violated", "loc": f"{fil}:{line}", "stmt": stmt})
        self.instances[rule] = self.instances.get(rule, 0) + 1

    def note(self, text: str) -> None:
        self.notes.append(text)

    def assume(self, text: str) -> None:
        if text not in self.assumptions:
            self.assumptions.append(text)

    def require(self, cond: bool, reason: str) -> None:
        if not cond:
            raise AnalysisError(reason)

    def floor(self, rule: str, minimum: int) -> None:
        got = self.instances.get(rule, 0)
        if got < minimum:
            raise AnalysisError(f"rule {rule} matched {got} instance(s); floor confirmed by hand is {minimum}")


# ------------------------------------------------------------------------ known findings


def load_known() -> Tuple[Dict[Tuple[str, str, str, str], Dict[str, Any]], List[Dict[str, Any]]]:
    known: Dict[Tuple[str, str, str, str], Dict[str, Any]] = {}
    fixed: List[Dict[str, Any]] = []
    if KNOWN_FILE.exists():
        for line in KNOWN_FILE.read_text().splitlines():
            line = line.strip()
            if not line or line.startswith("#"):
                continue
            rec = json.loads(line)
            if rec.get("kind") == "known":
                known[(rec["property"], rec["rule"], rec["where"], rec["stmt"])] = rec
            else:
                fixed.append(rec)
    return known, fixed


# ------------------------------------------------------------------------ finishing a run


def finish(ctx: Ctx, tier: str, seed: int, t0: float, explanation: str, extra: Optional[Dict[str, Any]] = None, write: bool = True) -> int:
    """Print verdict lines, write evidence, return the exit code."""
    known, _fixed = load_known()
    new: List[Finding] = []
    listed: List[Finding] = []
    for f in ctx.findings:
        (listed if f.key in known else new).append(f)
    for f in listed:
        print(f"KNOWN-FINDING: property={ctx.prop} rule={f.rule} {f.where}: {known[f.key].get('what', f.message)}")
    code = 0
    replay_paths: List[str] = []
    if new:
        code = 1
        if write:
            REPLAY_DIR.mkdir(parents=True, exist_ok=True)
        for i, f in enumerate(new):
            rp = REPLAY_DIR / f"{ctx.prop}_{i}.json"
            if write:
                rp.write_text(json.dumps(f.to_json(), indent=1))
            replay_paths.append(str(rp))
            print(f"  {f}")
            print(f"VIOLATION property={ctx.prop} replay={rp}")
    if write:
        write_evidence(ctx, tier, seed, t0, explanation, len(new), len(listed), extra)
    if code == 0:
        n_ob = len(ctx.obligations)
        print(f"OK property={ctx.prop} tier={tier} obligations={n_ob} known_findings={len(listed)} rules={','.join(sorted(ctx.instances))}")
    return code


def write_evidence(ctx: Ctx, tier: str, seed: int, t0: float, explanation: str, n_new: int, n_listed: int, extra: Optional[Dict[str, Any]]) -> None:
    EVIDENCE_DIR.mkdir(parents=True, exist_ok=True)
    obligations = ctx.obligations
    discharged = [o for o in obligations if o["verdict"] == "discharged"]
    distinct = {(o["rule"], o["where"], o.get("stmt", o["what"])) for o in obligations}
    # samples: a handful per rule, seed picks the rotation
    by_rule: Dict[str, List[Dict[str, Any]]] = {}
    for o in obligations:
        by_rule.setdefault(o["rule"], []).append(o)
    samples: List[Dict[str, Any]] = []
    for rule in sorted(by_rule):
        lst = by_rule[rule]
        k = seed % len(lst)
        rot = lst[k:] + lst[:k]
        samples.extend(rot[:3])
    violated = [o for o in obligations if o["verdict"] == "violated"]
    for o in violated:
        if o not in samples:
            samples.append(o)
    coverage: Dict[str, Any] = {
        "explanation": explanation,
        "obligations": len(obligations),
        "discharged": len(discharged),
        "evaluations": len(obligations),
        "distinct_nontrivial": len(distinct),
        "rule": "one evaluation = one (rule, construct) obligation derived from the parsed source of /repo; distinct = distinct (rule, qualified name, normalised statement) triples; every obligation is non-trivial in the sense that its rule has a seeded variant that makes it fail",
        "samples": samples,
        "rule_instances": dict(sorted(ctx.instances.items())),
        "notes": ctx.notes,
        "trusted_base": TRUSTED_BASE,
        "known_findings_reported": n_listed,
        "files_parsed": len(ctx.repo.modules),
        "functions_indexed": len(ctx.repo.funcs),
        "exhaustive": True,
    }
    if extra:
        coverage.update(extra)
    ev = {
        "property_id": ctx.prop,
        "tier": tier,
        "seed": seed,
        "level": "other",
        "coverage": coverage,
        "assumptions": TRUSTED_BASE[:0] + ctx.assumptions + [f"dynamic (by-name) call resolution: {d}" for d in sorted(set(ctx.dynamic))],
        "wall_s": round(time.time() - t0, 3),
        "violations": n_new,
    }
    (EVIDENCE_DIR / f"{ctx.prop}.json").write_text(json.dumps(ev, indent=1, default=str))
